#!/bin/bash
# confirm_seed.sh <ID> <worktree> <demo-dir-relative-or-.> <demo command...>
# Confirms a seeded change in its scratch worktree: builds, demo fails with the change, existing suite passes with it,
# demo passes without it.  Writes <worktree>/OUT/confirm.log.  (Scratch tool: not part of any registered check.)
ID=$1; W=$2; DD=$3; shift 3
export CARGO_TARGET_DIR=$W/target CARGO_NET_OFFLINE=true
L=$W/OUT/confirm.log; : > $L
cd $W || exit 2
git diff -- . ':!OUT' ':!demo' > $W/OUT/.applied.patch
echo "== $ID: library diff equals OUT/patch.diff: $(diff -q <(git diff --stat -- shuttle-engine shuttle-std shuttle-schedulers shuttle/src wrappers) /dev/null >/dev/null; git diff -- shuttle-engine shuttle-std shuttle-schedulers shuttle/src wrappers | diff -q - OUT/patch.diff >/dev/null && echo yes || echo NO)" >> $L
echo "== build with change" >> $L
cargo build --offline -p shuttle 2>&1 | tail -1 >> $L
echo "== demo WITH change (expect failure): $*" >> $L
( cd $DD && "$@" ) > $W/OUT/.demo_with.log 2>&1; echo "exit=$?" >> $L; grep -E "test result|panicked|LEAK|violation|FAILED|error\[" $W/OUT/.demo_with.log | head -8 >> $L
echo "== existing suites WITH change" >> $L
cargo test --offline -p shuttle-engine -p shuttle-schedulers -p shuttle-std 2>&1 | grep -E "^test result|FAILED|failed" >> $L
nice -n 5 cargo test --offline -p shuttle --test mod -- --skip mpsc_some_senders_with_blocking --skip batch_semaphore_test_1 --skip batch_semaphore_test_2 --skip dropped_acquire_must_release_random 2>&1 | grep -E "^test result|FAILED|failed" >> $L
echo "== demo WITHOUT change (expect pass)" >> $L
git apply -R OUT/patch.diff && ( cd $DD && "$@" ) > $W/OUT/.demo_without.log 2>&1; echo "exit=$?" >> $L; grep -E "test result|panicked|ok:" $W/OUT/.demo_without.log | head -5 >> $L
git apply OUT/patch.diff
echo "== done $(date)" >> $L
