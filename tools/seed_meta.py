#!/usr/bin/env python3
"""Writes seeded/<id>/meta.json from the hand-written table below, the confirmation log copied from the scratch worktree
(seeded/<id>/confirm.log) and the last selftest result for the seed (selftest/seeded-results.json)."""
import json
import os

HERE = os.path.dirname(os.path.dirname(os.path.abspath(__file__)))
T = {
    "C01-a": ("C01", "C01.R3|data-source-pure", "after",
              "replay clause: SHUTTLE_RANDOM_SEED set in the replaying process + body draws from shuttle::rand + recorded data seed differs from the env seed",
              "cargo test --offline -p shuttle --test seed_demo"),
    "C03-a": ("C03", "fresh-waker-on-pending", "after",
              "a future JoinHandle polled by two different tasks (first poller gets Pending, handle moved to a second task) before the joined task finishes: the second awaiter is never woken and a deadlock is reported for a program that has none",
              "cargo test --offline -p shuttle --test demo_c03"),
    "C04-a": ("C04", "C04.R3", "before (floor), after (single-step)",
              "two tasks racing on the same atomic with one of them in `swap`: the other's write lands between the load half and the store half",
              "cd demo && cargo test --offline"),
    "C05-a": ("C05", "C05.CV", "before",
              ">= 3 condvar waiters, 2 racing notify_one, a waiter enqueuing between the two notifications and being scheduled first: 2 notify_one release 3 waiters",
              "cd demo && cargo test --offline"),
    "C06-a": ("C06", "C06.CAP", "after",
              "bounded/rendezvous channel, a blocking send parked, receiver frees a slot (wakes it), a try_send from another sender scheduled before the woken sender resumes: capacity exceeded / rendezvous hand-off without a receiver",
              "cargo test --offline -p shuttle --test c06_demo"),
    "C08-a": ("C08", "C08.R2", "before",
              "a scheduler that answers a yielding decision by re-picking the yielder: every later decision of that task still carries is_yielding = true",
              "cd demo && cargo test --offline"),
    "C12-a": ("C12", "C12.R2|hook-reads-thread-state", "before",
              "an earlier Shuttle run in the process with another failure_persistence + a task panic raised while ExecutionState is borrowed (e.g. inside a ChildLabelFn during spawn): schedule emitted/suppressed according to the first run's configuration",
              "cd demo && cargo run --offline"),
    "C02-a": ("C02", "C02.R1|switch-first", "before",
              "rendezvous channel + try_send from another thread + receiver thread with an earlier visible operation followed by a blocking recv on the empty channel: "
              "the interleaving `earlier op ; try_send ; recv` (try_send -> Full) is unreachable because the recv registers itself without a choice point",
              "cargo test --offline -p shuttle --test seed_demo"),
    "C07-a": ("C07", "C07.R3", "before",
              "a thread exiting with >= 3 live thread-locals whose destructors' relative order is observable (swap_remove(0) reorders from the third on)",
              "cargo test --offline -p shuttle --test seed_demo"),
    "C09-a": ("C09", "C09.R1|reinitialize-restarts-stream", "before",
              "DfsScheduler with allow_random_data = true, a body where whether data is drawn depends on the schedule: an execution following one that drew nothing sees another stream",
              "cargo test --offline -p shuttle --test seed_demo"),
    "C10-a": ("C10", "C10.R2|reseed-on-every-path", "after",
              "random scheduler, >= 2 iterations, a body that draws shuttle::rand data only on some executions: iteration k (drawing) after iteration k-1 (not drawing) is not "
              "reproduced, data draws included, by check_random_with_seed(seed_k, 1)",
              "cargo test --offline -p shuttle --test seed_demo"),
    "C11-a": ("C11", "C11.R2|change-point-always-demotes", "after",
              "a change point landing on the multi-choice step at which the running task has just blocked, in a program whose bug needs exactly that demotion "
              "(a blocking operation without a preceding scheduling point, e.g. Barrier::wait): hit probability drops from >= 1/(n*k^(d-1)) to 0",
              "cargo test --offline -p shuttle --test seed_demo"),
    "C13-a": ("C13", "C13.R2", "before (who-may table), after (unit rule)",
              "body draws shuttle::rand values, later calls reset_step_count(), tight max_steps: the count restarts at (#scheduling decisions) instead of the schedule length, "
              "so executions within the bound are failed / abandoned",
              "cargo test --offline -p shuttle --test seed_demo"),
    "C14-a": ("C14", "C14.R5|leak-only-while-panicking", "after",
              "an execution abandoned by ContinueAfter / a scheduler returning None while a task is suspended inside its function: its stack is force_reset (leaked) instead of unwound, "
              "values on it survive into the next execution",
              "cargo test --offline -p shuttle --test seed_demo"),
    "C15-a": ("C15", "C15.P", "after",
              "three tasks on one atomic: store by W1, plain store by an unrelated W2, then a load / RMW by R: R's clock does not dominate W1's (the store replaced the variable's clock)",
              "cargo test --offline -p shuttle --test seed_demo"),
    "C18-a": ("C18", "C18.R6|closed-only-if-nothing-granted", "after",
              "strictly fair semaphore: a queued waiter is granted permits by release(), close() runs before the waiter is polled again: the acquisition fails and its permits are neither held nor returned",
              "cargo test --offline -p shuttle --test seed_demo"),
    "C20-a": ("C20", "C20.R2|one-lock", "before",
              "DashMap::get_mut of a present key racing with a removal scheduled between get_mut's read-lock lookup and its write-lock acquisition",
              "cargo test --offline -p shuttle-dashmap-impl --test seed_demo"),
    "C16-a": ("C16", "C16.R4|reader-accepts-every-writer-width", "before (idiom not recognised), after (interval rule)",
              "a schedule containing a task id with the most significant bit of usize set (id >= 2^63): the writer uses 64 bits per id, the reader's half-open range rejects width 64",
              "cargo test --offline -p shuttle --test seed_demo"),
    "C19-a": ("C19", "C19.R7|notify_waiters-marks-all-before-first-wake", "after",
              ">= 2 Notified futures registered when notify_waiters() runs; the task owning a later one is scheduled inside the oneshot send to an earlier one and drops (or polls with a "
              "stored permit) its Notified: remove_waiter panics in a correct tokio program",
              "cargo test --offline -p shuttle-tokio-impl-inner --test seed_demo  (seed_demo.rs copied to wrappers/tokio/impls/tokio/inner/tests/)"),
    "C02-b": ("C02", "C02.R1|switch-first", "before",
              "Condvar::notify_all returns without a choice point when nobody waits: notifier's previous visible op not under the waiter's mutex, the waiter observes it and then waits; "
              "the outcome `saw the flag and was woken by that broadcast` becomes unreachable",
              "cargo test --offline -p shuttle --test seed_demo"),
    "C03-b": ("C03", "C03.R4|report-names-unfinished", "before",
              "a real deadlock while a detached async task is still unfinished: the report no longer names the detached task",
              "cargo test --offline -p shuttle --test seed_demo"),
    "C04-b": ("C04", "C04.R5|no-borrow-across-choice-point", "after",
              "a task holding the RwLock for reading calls try_read again (re-entrant failure path) while another task uses the same lock and is scheduled inside the give-back release: "
              "`RefCell already borrowed` panic instead of a granted read",
              "cargo test --offline -p shuttle --test seed_demo"),
    "C05-b": ("C05", "C05.PK", "after",
              "unpark(T) while T is not parked, then T is unblocked by another primitive (mutex/barrier/join...), then T parks: the pending token was discarded by Task::unblock and T blocks forever",
              "cargo test --offline -p shuttle --test seed_demo"),
    "C06-b": ("C06", "C06.CHAIN|one-wake-up-is-unconditional", "after",
              "bounded channel of capacity >= 2, two senders parked on the full channel, the receiver drains everything and blocks before the first woken sender runs: the second sender is never released (two cooperating edits, each harmless alone)",
              "cargo test --offline -p shuttle --test seed_demo"),
    "C07-b": ("C07", "C07.R6", "before (floor), after (closed set of poppers)",
              "a thread with >= 2 thread-locals where the destructor of an earlier-initialised one reads a later-initialised one: it sees AccessError although that value's destructor has not run",
              "cargo test --offline -p shuttle --test seed_demo"),
    "C12-b": ("C12", "C12.R1|persists-every-failure-kind", "after",
              "a task failure whose unwinding does not run the panic hook at the final schedule length: payload raised with resume_unwind, or a caught panic forwarded after a scheduling point — no schedule (or only a non-reproducing prefix) is emitted",
              "cargo test --offline -p shuttle --test seed_demo"),
    "C17-b": ("C17", "C17.R5|fresh-waker-on-pending", "before (rule added for C03-a)",
              "a JoinHandle polled once with one waker and then awaited with another (moved to another task / pushed into FuturesUnordered) before the task completes",
              "cargo test --offline -p shuttle --test seed_demo"),
    "C08-b": ("C08", "C08.R2|list-filled-in-one-ordered-pass", "after",
              "a task blocked in thread::park with a lower id than some runnable task (main parks while its child runs): the scheduler receives [1, 0]; RoundRobin never returns to the parked task",
              "cargo test --offline -p shuttle --test seed_demo"),
    "C14-b": ("C14", "C14.R1|state|shuttle_engine::runtime::execution::CURRENT_SCHEDULE", "after",
              "an execution calls reset_step_count(); a later execution on the same OS thread relies on the step bound before its own reset: its bound is max_steps + L",
              "cargo test --offline -p shuttle --test seed_demo"),
    "C15-b": ("C15", "C15.E|mpsc-bounded-recv-publishes-merged-clock", "after",
              "bounded non-rendezvous channel, two producers: X.send, consumer.recv (of X's message), Y.send into the freed slot — Y's clock does not dominate X's send",
              "cargo test --offline -p shuttle --test seed_demo"),
    "C18-b": ("C18", "C18.R7|grant-loop-runs-to-fixpoint", "after",
              "strictly fair semaphore, queued oversized head cancelled while two smaller waiters behind it both fit: only the first is granted, the second is stranded",
              "cargo test --offline -p shuttle --test seed_demo"),
    "C19-b": ("C19", "C19.R5", "before",
              "rx.close() then drop(rx) while a message is still buffered and a Sender is still alive: the buffered value (e.g. a request carrying a oneshot::Sender) is never dropped; its client deadlocks",
              "cargo test --offline -p shuttle-tokio-impl-inner --test seed_demo  (seed_demo.rs copied to wrappers/tokio/impls/tokio/inner/tests/)"),
    "C20-b": ("C20", "C20.R1", "before",
              "try_upgradable_read failing because a writer holds (or is queued for) the lock while the upgradable slot is free: the slot stays taken, no upgradable reader is ever admitted again",
              "cargo test --offline -p shuttle-parking_lot-impl --test seed_demo"),
    "C01-b": ("C01", "C01.R2|value-comes-from-a-draw", "after (C14.R1 caught the new thread-local before)",
              "a body with 32-bit shuttle::rand draws, an execution ending after an odd number of them, and a later execution on the same OS thread: it is served the left-over half word "
              "without a recorded draw; its schedule does not replay and the nondeterminism checker rejects a controlled body",
              "cargo test --offline -p shuttle --test seed_demo"),
    "C09-b": ("C09", "C09.R2|stops-when-exhausted", "after",
              "DFS with MaxSteps::ContinueAfter(0): no decision is ever recorded, `levels` stays empty, the exhaustion test never fires — the single empty schedule is repeated forever / max_iterations times",
              "cargo test --offline -p shuttle --test seed_demo"),
    "C10-b": ("C10", "C10.R1", "after",
              "URW scheduler, a body with three generations of tasks, two scheduler instances built from the same seed: the parent/child edges are folded in HashMap order, weights differ, executions diverge from iteration 2",
              "cargo test --offline -p shuttle --test seed_demo"),
    "C11-b": ("C11", "C11.R2|new-task-can-be-lowest", "after",
              "a task id >= 16 first seen in a PCT-driven iteration (>= 2) and a bug that needs the newly created task to run last: probability 0 instead of >= 1/n",
              "cargo test --offline -p shuttle --test seed_demo"),
    "C13-b": ("C13", "C13.R1|bound-consulted-by-every-step", "after",
              "an execution that has used exactly n steps when it finishes or deadlocks: FailAfter(n) passes / reports a deadlock, ContinueAfter(n) fails the run with a deadlock instead of abandoning silently",
              "cargo test --offline -p shuttle --test seed_demo"),
    "C16-b": ("C16", "C16.R1|total", "before",
              "a well-formed header declaring a step count n with n * (1 + task_id_bits) >= 2^64 and a short payload: multiplication overflow / out-of-bounds index inside the decoder",
              "cargo test --offline -p shuttle-engine --test seed_demo"),
    "C17-a": ("C17", "C17.R2|wake-sets-woken", "before",
              "a waker invoked (or abort called) while the task is Blocked inside its poll on a blocking primitive (mpsc recv, Condvar, Barrier, join, park): the wake is forgotten and the task sleeps forever",
              "cd demo && cargo test --offline"),
}


def main():
    res = {}
    for name in ("seeded-results.json", "seeded-results-b.json", "seeded-results-b2.json", "seeded-results-c.json", "seeded-results-d.json"):
        p = os.path.join(HERE, "selftest", name)
        if os.path.exists(p):
            res.update({r["id"]: r for r in json.load(open(p))["results"]})
    for sid, (prop, expect, when, needs, demo) in sorted(T.items()):
        d = os.path.join(HERE, "seeded", sid)
        if not os.path.isdir(d):
            continue
        r = res.get("seeded-" + sid, {})
        conf = os.path.join(d, "confirm.log")
        meta = {
            "property": prop,
            "expect": expect,
            "origin": "independent sub-agent given only the property text and a scratch worktree of /repo",
            "needs_to_manifest": needs,
            "demonstration": demo + "  (files next to this one; fails with patch.diff applied, passes without)",
            "confirmed_by_me": {
                "how": "tools/confirm_seed.sh in the scratch worktree: build, demo with the change (fails), shuttle-engine/-schedulers/-std tests and "
                       "`shuttle --test mod` minus the four known-bad tests with the change (pass), demo without the change (passes)",
                "log": "confirm.log" if os.path.exists(conf) else None,
            },
            "my_checks": {
                "how": "tools/selftest.py --seeded --all-props (scratch copy of /repo + patch.diff, facts re-extracted, every property's check run)",
                "own_check_status": r.get("status"),
                "own_check_violations": r.get("violations"),
                "other_checks_firing": r.get("other_checks_firing"),
                "caught": when,
            },
        }
        with open(os.path.join(d, "meta.json"), "w") as fh:
            json.dump(meta, fh, indent=1)
        print(sid, r.get("status"), when)


if __name__ == "__main__":
    main()
