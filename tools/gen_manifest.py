#!/usr/bin/env python3
"""Regenerates /verif/MANIFEST.json from the table below (single source of truth for the interface)."""
import json
import os
import subprocess

HERE = os.path.dirname(os.path.dirname(os.path.abspath(__file__)))

TECH = {
    "C01": "MIR who-may-call + dominance + dataflow rules (rustc_private driver), deny-list scan for ambient nondeterminism",
    "C02": "MIR must-precede (choice point before first shared access) fixed point over the primitive API + guard-dependence slices",
    "C03": "MIR single-writer, flow-sensitive guard-dependence slice and must-follow (block => yield) rules",
    "C04": "permit typestate abstract interpretation over MIR + who-may / dominance / atomic-window rules",
    "C05": "MIR required-effect table: dominance, loop-membership, guard-dependence and single-writer rules",
    "C06": "MIR required-effect table for mpsc: FIFO ends, re-check after wake, sibling agreement of Drop/Clone impls",
    "C07": "MIR ordering (dominance) rules in thread_fn/join/storage + compile_fail witness",
    "C08": "MIR single-call-site, argument provenance and wrapper-transparency rules + compile_fail witness",
    "C10": "MIR deny-list reachability and seed dataflow rules over every scheduler",
    "C12": "MIR persist-before-raise dominance, thread-local dependence of the panic hook, absence rules",
    "C13": "MIR must-precede (bound consulted before every append) and who-may rules",
    "C14": "static/thread_local inventory from type facts + reset-on-entry must-precede / cleanup must-follow",
    "C15": "MIR happens-before edge table: clock operations required on the success path of each synchronising operation",
    "C16": "MIR totality (no panicking construct reachable) + writer/reader dataflow agreement",
    "C17": "MIR poll-loop shape (sibling agreement), atomic-window, must-follow rules + compile_fail witness",
    "C18": "MIR flag/queue pairing, single-writer, cancel-path and guard-dependence rules",
    "C19": "permit typestate abstract interpretation over pre-state-machine async MIR + sibling agreement of receive paths",
    "C20": "permit typestate vs. lock_api table, one-lock-per-operation, hasher provenance, RNG reachability + compile_fail witness",
}

# (what assurance, what is assumed / not decided)
LEVEL = {
    "C01": ("Decides, over every path of the runtime (not over sampled programs), that each scheduler decision and each random draw is appended to the "
            "recorded schedule before it takes effect, that the recorded seed is the seed the data source and choice RNG use, that the replay cursor "
            "advances per served step, and that no ambient nondeterminism or hash-order iteration exists in the engine/std/scheduler crates.",
            "structural clauses only: equality of two concrete executions is not decided; Pcg64Mcg/rand determinism and rustc's MIR are trusted"),
    "C02": ("Decides the source's own necessary condition (`switch` before any visible operation) for the whole primitive API (~340 functions): on every "
            "path to the first shared access there is a choice point, or the function is a table entry with the commuting reason given in the source; "
            "the guards of the two double-yield optimisations and the pre-exit choice point are checked by slices. 8 genuine gaps are known findings.",
            "necessary condition only: that every SC outcome of every program is reachable is not decided; commutativity claims of table entries are taken from source comments"),
    "C03": ("Decides single ownership of task-state transitions, that the Finished/Deadlock decisions depend on runnable+detached and not on "
            "spurious-wake eligibility, and that every self-block in std/engine is followed by a yield on all paths.",
            "structural clauses only: exactness of verdicts for all programs is not decided (permit leaks causing false deadlocks are decided by C04/C19)"),
    "C04": ("Decides, for every path of the Mutex/RwLock API and every parameter value, that guards are built only while holding exactly what their Drop "
            "releases and that failed attempts hold nothing; decides that atomic operations are one step after one choice point.",
            "structural clauses only: returned values of atomics and the SC total order are not decided; BatchSemaphore semantics trusted (C18)"),
    "C05": ("Decides a table of necessary effects of Condvar/Barrier/Once/park (release+enqueue before block, re-lock on return, unblock inside the waiter "
            "loop, leader token for the pre-increment epoch, initializer before flag/Complete, ParkState single owner).",
            "narrow: absence of lost or phantom wake-ups over all interleavings (the bulk of the property) is NOT decided"),
    "C06": ("Decides FIFO ends, disconnection re-check after wake-up, try_send never blocking, hand-off wake-ups and sibling agreement of the Drop/Clone impls of mpsc.",
            "narrow: capacity arithmetic and exactly-once delivery over all histories are not decided"),
    "C07": ("Decides the order closure -> TLS destructors -> result -> wake joiner in thread_fn, TLS destruction order and tombstones, scope's 1->0 wake, task "
            "ids never reused; thorough tier adds a compile_fail witness that join consumes the handle.",
            "structural clauses only: schedule-dependent join/exit orderings are not decided"),
    "C08": ("Decides the single consultation site, the provenance of all three arguments, that the answer is what runs, and that every wrapper scheduler forwards "
            "arguments and result unchanged; thorough tier adds a compile_fail witness that schedulers cannot mutate tasks.",
            "structural clauses only: non-emptiness/distinctness of the offered list as runtime facts follow from invariants asserted in debug builds"),
    "C10": ("Decides that all randomness of every scheduler flows from the per-execution seed, that the recorded seed reproduces an iteration, and that "
            "Random/URW choose over the full offered slice.",
            "structural clauses only: statistical uniformity and eventual coverage are trusted to rand"),
    "C12": ("Decides persist-before-raise, that the panic hook uses the current run's configuration, per-run reset of the duplicate marker, silence of the None / "
            "ContinueAfter paths, payload identity, create_new files and portfolio re-raise.",
            "structural clauses only: that the emitted schedule reproduces the failure is C01's concern"),
    "C13": ("Decides that the step bound is consulted before every append of a task step and that ContinueAfter stops silently; the unbounded random-draw append is a known finding.",
            "narrow: off-by-one of the comparison and iteration arithmetic are not decided"),
    "C14": ("Decides that every static/thread-local with interior mutability in the runtime crates is reset per execution, scoped, or allow-listed with a reason; that "
            "ExecutionState is built fresh; that cleanup is reached and complete; that stacks are recycled only when clean.",
            "structural clauses only: behavioural equality of an iteration with its stand-alone replay is not decided"),
    "C15": ("Decides, for each happens-before edge of the statement, that the operation performs the clock increment/merge on its success path, and monotonicity of update/increment.",
            "necessary conditions only: absence of spurious orderings and target-clock replay are not decided"),
    "C16": ("Decides decoder totality for every input string by showing that no panicking construct is reachable on any path of deserialize_schedule and its in-crate "
            "callees, and that the writer's and reader's header tables agree; tests only sample strings.",
            "structural clauses only: value-level round trip for all schedules is not decided; allow-listed hex/bitvec callees are trusted"),
    "C17": ("Decides the poll-loop shape of all three executors (no choice point between poll and sleep, yield after sleep), that wake always records, result-before-wake, "
            "and the abort/detach paths; thorough tier adds a compile_fail witness for exactly-once delivery.",
            "structural clauses only: lost wake-ups inside arbitrary user futures are not decided"),
    "C18": ("Decides the queue/flag pairing invariants of the source, single writers of the permit count, the cancel path and the fair-admission guard.",
            "narrow: conservation arithmetic and grant order over all histories are not decided"),
    "C19": ("Decides sibling agreement of all receive paths on capacity return, send-path accounting, the FIFO fairness constant and guard/permit "
            "accounting of the tokio Mutex/RwLock/Semaphore on every path of the wrapper code.",
            "narrow: Notify/watch/oneshot contracts and deadlock freedom of arbitrary tokio programs are not decided"),
    "C20": ("Decides that every lock_api raw method of the parking_lot replacement has exactly the permit effects of the documented modelling (incl. rollback of "
            "failed try_*), one lock acquisition per DashMap operation, fixed-hasher provenance of the deterministic collections, RNG delegation and per-execution lazy statics.",
            "narrow: upgrade/downgrade interleavings and DashMap linearizability as behaviours are not decided"),
}

# clauses added during the seeding round (appended to the first sentence of LEVEL)
ADDED = {
    "C01": "Also: every DataSource method is a function of its seed/own state only (no ambient read) and reinitialize re-seeds on every path with the seed it returns.",
    "C03": "Also: a future that registers wakers registers the current one on every path to Poll::Pending (a stale waker is a false deadlock).",
    "C04": "Also: an atomic operation does not chain several atomic operations (each would start with its own choice point); the holder record is written only after the acquire.",
    "C05": "Also: a woken condvar waiter deletes its epoch from the other queues by search, never from a fixed end.",
    "C06": "Also: the predicate guarding Full/block lets a sender proceed only on the not-full edge of the capacity comparison and only after seeing no queued sender, for every caller.",
    "C07": "The thread-local destruction queue is checked for order-preserving operations (append at the back, take the front), independent of the container type.",
    "C10": "Also: RandomDataSource::reinitialize restarts its generator on every path from the seed it reports.",
    "C13": "Also: reset_step_count records the schedule length (same unit as the predicate); per-scheduler iteration budgets; maybe_yield is a no-op while a stopped execution is cleaned up (D9).",
    "C14": "Reset must happen on the entry path of Execution::run (a failing execution skips cleanup, D8); in-flight stacks are unwound unless the thread is panicking.",
    "C15": "Also (converse clause): only the enumerated synchronisation edges merge clocks; Task.clock and an atomic's clock are only created or grown.",
    "C16": "Also: bit-layout agreement of writer and reader (strides, id bit range) and, by interval analysis of the reader's validation, that it accepts exactly the id widths the writer emits.",
    "C17": "Also: JoinHandle::poll registers the current waker on every path to Pending.",
    "C18": "Also: both Pending exits re-point the waiter at the current poller; a waiter that was granted permits never reports `closed`.",
    "C19": "Also: Notify required effects (one stored permit, notify_one wakes exactly one, notify_waiters marks all before the first wake), fresh waker in Timeout.",
}

NOT_APPLICABLE = {}
TECH["C09"] = "MIR type facts + dataflow: fixed data stream, stop-condition guards, shape of the backtracking step (structural clauses only)"
TECH["C11"] = "MIR dataflow/guard-dependence: min_by_key over the offered slice, guards and key of every priority write, change-point sampling"
LEVEL["C09"] = ("NARROW: decides only that every DFS execution uses the same fixed data stream, that new_execution stops exactly under budget / exhausted-stack tests, "
                "and that a backtracking step selects the successor of the previous choice and truncates deeper levels.",
                "exhaustiveness and uniqueness of the enumeration (index arithmetic over a run-time stack: `was_last` flags, off-by-one) are NOT decided by any static rule in reach")
LEVEL["C11"] = ("NARROW: decides only that PCT returns the minimum-priority task of the whole offered slice, that priorities are rewritten only for new tasks or under "
                "(change point || yield) for the task that was running, that change points are sampled from the seeded rng with count <= depth-1, and the iteration budget.",
                "the strict-priority behaviour over whole executions, the change-point range and the 1/(n*k^(d-1)) probability bound are NOT decided (numeric/statistical)")


def main():
    props = [json.loads(l)["id"] for l in open(os.path.join(HERE, "properties.jsonl"))]
    implemented = [p for p in props if os.path.exists(os.path.join(HERE, "rules", p.lower() + ".py")) and p not in NOT_APPLICABLE]
    commits = subprocess.run(["git", "-C", "/repo", "log", "--format=%h %s"], stdout=subprocess.PIPE, text=True).stdout.splitlines()
    fix_commits = [c.split()[0] for c in commits if c.split(" ", 1)[1].startswith("fix:")]
    checks = []
    for p in implemented:
        text, note = LEVEL[p]
        if p in ADDED:
            text = text + " " + ADDED[p]
        checks.append({
            "property_id": p,
            "quick_cmd": "./check %s --tier quick" % p,
            "thorough_cmd": "./check %s --tier thorough" % p,
            "evidence_file": "evidence/%s.json" % p,
            "replay_cmd_template": "./check --explain {path}",
            "engine": "mir-facts",
            "level_claimed": {"category": "other", "text": text, "design_ref": "DESIGN.md section 4, " + p},
            "level_note": note,
            "technique": TECH[p],
        })
    na = [{"property_id": p, "reason": NOT_APPLICABLE.get(p, "no static check implemented")} for p in props if p not in implemented]
    m = {
        "version": 1,
        "setup_cmd": "cd engine/driver && CARGO_NET_OFFLINE=true cargo +nightly build --release --offline",
        "hooks": {
            "guard": "shuttle_verif",
            "enable": "none: the checks read /repo's unmodified sources through a rustc_private driver (RUSTC_WORKSPACE_WRAPPER); no cfg-guarded code was added to /repo",
            "baseline_off_cmd": "cd /repo && cargo nextest run --workspace --no-fail-fast --test-threads 8 --offline || cargo test --workspace --no-fail-fast --offline",
            "source_commits": fix_commits,
            "add_only": True,
        },
        "engines": [
            {"name": "mir-facts", "path": "engine/", "serves_properties": implemented,
             "kind_free_text": "rustc_private MIR fact extraction (engine/driver) + python rule engine (engine/*.py, rules/*.py): CFG/dominance/"
                               "must-call summaries, flow-sensitive slices, who-may tables, permit typestate abstract interpreter; "
                               "thorough tier adds rustdoc compile_fail witnesses (witness/) and the checker self-test on planted changes (selftest/, seeded/)"},
        ],
        "checks": checks,
        "not_applicable": na,
        "notes": "Technique family: static analysis only. Every check re-extracts MIR facts from /repo's current working tree "
                 "(content-hash keyed cache under .cache/). source_commits lists the `fix:` commits made in /repo (genuine defects, see known_findings.json).",
    }
    with open(os.path.join(HERE, "MANIFEST.json"), "w") as fh:
        json.dump(m, fh, indent=1)
    print("MANIFEST.json: %d checks, %d not_applicable" % (len(checks), len(na)))


if __name__ == "__main__":
    main()
