#!/usr/bin/env python3
"""Regenerates /verif/MANIFEST.json from the table below (single source of truth for the interface)."""
import json
import os
import subprocess

HERE = os.path.dirname(os.path.dirname(os.path.abspath(__file__)))

TECH = {
    "C01": "MIR who-may-call + dominance + dataflow rules (rustc_private driver)",
    "C02": "MIR must-precede (choice point before first shared effect) over the primitive API, guard-dependence slices",
    "C03": "MIR single-writer, guard-dependence slice and must-follow rules",
    "C04": "permit typestate abstract interpretation over MIR + who-may / dominance / atomic-window rules",
    "C05": "MIR required-effect table: dominance, must-follow and single-writer rules",
    "C06": "MIR required-effect table for mpsc: FIFO ends, block=>yield, sibling agreement",
    "C07": "MIR ordering (dominance) rules in thread_fn/join/storage + compile_fail witnesses",
    "C08": "MIR single-call-site, argument provenance and wrapper-transparency rules",
    "C10": "MIR deny-list reachability and seed dataflow rules over the scheduler crate",
    "C12": "MIR persist-before-raise dominance, closure capture type facts, absence rules",
    "C13": "MIR must-precede (bound consulted before every append) and who-may rules",
    "C14": "static/thread_local inventory from type facts + reset-on-entry reachability",
    "C15": "MIR happens-before edge table: must-call of clock operations on success paths",
    "C16": "MIR totality (no panicking construct reachable) + writer/reader dataflow agreement",
    "C17": "MIR poll-loop shape (sibling agreement), atomic-window and must-follow rules + compile_fail witness",
    "C18": "MIR flag/queue pairing, single-writer, cancel-path must-call and guard-dependence rules",
    "C19": "permit typestate abstract interpretation over pre-state-machine async MIR + sibling agreement",
    "C20": "permit typestate vs. lock_api table, one-lock-per-operation, hasher provenance, RNG reachability",
}

LEVEL_TEXT = {
    "C16": ("Decides decoder totality for every input string by showing that no panicking construct is reachable on any path of "
            "deserialize_schedule and its in-crate callees, and that the writer's and reader's header tables agree; tests only sample strings.",
            "structural clauses only: value-level round trip for all schedules is not decided; external hex/bitvec callees on the allow-list are trusted"),
    "C04": ("Decides, for every path of the Mutex/RwLock API and every parameter value, that guards are built only while holding exactly "
            "what their Drop releases and that failed attempts hold nothing; decides that atomic operations are one step after one choice point.",
            "structural clauses only: returned values of atomics and SC total order are not decided; BatchSemaphore semantics trusted (C18)"),
    "C19": ("Decides sibling agreement of all receive paths on capacity return, send-path accounting, FIFO fairness constant and guard/permit "
            "accounting of the tokio Mutex/RwLock/Semaphore on every path of the wrapper code.",
            "narrow: Notify/watch/oneshot contracts and deadlock freedom of arbitrary tokio programs are not decided"),
}

# properties with a check implemented (kept in sync with rules/*.py)
IMPLEMENTED = ["C16", "C04", "C19", "C20", "C12", "C14", "C02", "C01", "C08", "C10", "C13", "C03", "C17", "C18", "C15", "C05", "C06", "C07"]

NOT_APPLICABLE = {
    "C09": "DFS exhaustiveness/uniqueness is index arithmetic over a run-time stack for all tree shapes; no ownership/ordering/dataflow "
           "rule distinguishes a correct DFS from an off-by-one one (its fixed-data-stream clause is decided under C01.R3)",
    "C11": "priority discipline, change-point range and the 1/(n*k^(d-1)) bound are numeric/statistical claims over runtime values; "
           "the determinism clause is decided by the C10 rule, which also runs over PctScheduler",
}


def main():
    props = [json.loads(l)["id"] for l in open(os.path.join(HERE, "properties.jsonl"))]
    commits = subprocess.run(["git", "-C", "/repo", "log", "--format=%h %s"], stdout=subprocess.PIPE, text=True).stdout.splitlines()
    fix_commits = [c.split()[0] for c in commits if c.split(" ", 1)[1].startswith("fix:")]
    checks = []
    for p in props:
        if p not in IMPLEMENTED:
            continue
        text, note = LEVEL_TEXT.get(p, ("static rules over the MIR of the current tree; see DESIGN.md", "structural clauses only"))
        checks.append({
            "property_id": p,
            "quick_cmd": "./check %s --tier quick" % p,
            "thorough_cmd": "./check %s --tier thorough" % p,
            "evidence_file": "evidence/%s.json" % p,
            "replay_cmd_template": "./check --explain {path}",
            "engine": "mir-facts",
            "level_claimed": {"category": "other", "text": text, "design_ref": "DESIGN.md section 4, " + p},
            "level_note": note,
            "technique": TECH[p],
        })
    na = []
    for p in props:
        if p in IMPLEMENTED:
            continue
        na.append({"property_id": p, "reason": NOT_APPLICABLE.get(p, "static check designed in DESIGN.md but not implemented yet in this revision (not claimed)")})
    m = {
        "version": 1,
        "setup_cmd": "cd engine/driver && CARGO_NET_OFFLINE=true cargo +nightly build --release --offline",
        "hooks": {
            "guard": "shuttle_verif",
            "enable": "none: the checks read /repo's unmodified sources through a rustc_private driver (RUSTC_WORKSPACE_WRAPPER); no cfg-guarded code was added to /repo",
            "baseline_off_cmd": "cd /repo && cargo nextest run --workspace --no-fail-fast --test-threads 8 --offline || cargo test --workspace --no-fail-fast --offline",
            "source_commits": fix_commits,
            "add_only": True,
        },
        "engines": [
            {"name": "mir-facts", "path": "engine/", "serves_properties": IMPLEMENTED,
             "kind_free_text": "rustc_private MIR fact extraction (engine/driver) + python rule engine (engine/*.py, rules/*.py): CFG/dominance/"
                               "must-call summaries, slices, who-may tables, permit typestate abstract interpreter"},
        ],
        "checks": checks,
        "not_applicable": na,
        "notes": "Technique family: static analysis only. Every check re-extracts MIR facts from /repo's current working tree "
                 "(content-hash keyed cache under .cache/). source_commits lists the `fix:` commits made in /repo (genuine defects, see known_findings.json).",
    }
    with open(os.path.join(HERE, "MANIFEST.json"), "w") as fh:
        json.dump(m, fh, indent=1)
    print("MANIFEST.json: %d checks, %d not_applicable" % (len(checks), len(na)))


if __name__ == "__main__":
    main()
