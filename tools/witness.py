#!/usr/bin/env python3
"""Runs the K10 compile_fail witnesses (witness/) against /repo's current tree with a throw-away target dir."""
import os
import re
import shutil
import subprocess
import sys
import tempfile

HERE = os.path.dirname(os.path.dirname(os.path.abspath(__file__)))


def run(only=None):
    """Returns {witness name: {"compile_fail": bool, "twin": bool}} and raw output."""
    repo = os.environ.get("VERIF_REPO", "/repo")
    src = os.path.join(HERE, "witness")
    work = tempfile.mkdtemp(prefix="verif-witness-")
    try:
        shutil.copytree(src, os.path.join(work, "w"))
        w = os.path.join(work, "w")
        toml = open(os.path.join(w, "Cargo.toml")).read().replace('path = "/repo/shuttle"', 'path = "%s/shuttle"' % repo)
        open(os.path.join(w, "Cargo.toml"), "w").write(toml)
        shutil.copy(os.path.join(repo, "Cargo.lock"), os.path.join(w, "Cargo.lock"))
        env = dict(os.environ)
        env["CARGO_TARGET_DIR"] = os.path.join(work, "target")
        env["CARGO_NET_OFFLINE"] = "true"
        r = subprocess.run(["cargo", "+nightly", "test", "--doc", "--offline"], cwd=w, env=env, stdout=subprocess.PIPE, stderr=subprocess.STDOUT, text=True)
        out = r.stdout
        res = {}
        for m in re.finditer(r"test src/lib.rs - (\w+) \(line (\d+)\)( - compile fail)?( - compile)? \.\.\. (\w+)", out):
            name, line, cf, comp, status = m.group(1), int(m.group(2)), m.group(3), m.group(4), m.group(5)
            d = res.setdefault(name, {})
            d["compile_fail" if cf else "twin"] = (status == "ok")
        return res, out
    finally:
        shutil.rmtree(work, ignore_errors=True)


if __name__ == "__main__":
    res, out = run()
    for k, v in sorted(res.items()):
        print(k, v)
    if not res:
        print(out[-3000:])
    sys.exit(0 if res and all(v.get("compile_fail") and v.get("twin") for v in res.values()) else 1)
