#!/usr/bin/env python3
"""Checker self-test: applies each planted change of selftest/mutants.py to a scratch copy of /repo (under $TMPDIR,
removed afterwards), re-extracts the MIR facts of that copy and requires that the named check fires on the planted
instance.  Usage: tools/selftest.py [--prop C04] [--id C04-write-amount] [--jobs 3] [--seeded]
"""
import argparse
import json
import os
import shutil
import subprocess
import sys
import tempfile
import time
from concurrent.futures import ThreadPoolExecutor

HERE = os.path.dirname(os.path.dirname(os.path.abspath(__file__)))
sys.path.insert(0, HERE)
sys.dont_write_bytecode = True


def copy_repo(dst):
    subprocess.run(["rsync", "-a", "--exclude", "target", "--exclude", ".git", "/repo/", dst + "/"], check=True)


def run_check(prop, repo_dir, evid_dir):
    env = dict(os.environ)
    env["VERIF_REPO"] = repo_dir
    env["VERIF_EVIDENCE_DIR"] = evid_dir
    r = subprocess.run([os.path.join(HERE, "check"), prop], stdout=subprocess.PIPE, stderr=subprocess.STDOUT, text=True, env=env, cwd=HERE)
    keys = []
    vdir = os.path.join(evid_dir, "violations")
    if os.path.isdir(vdir):
        for f in sorted(os.listdir(vdir)):
            with open(os.path.join(vdir, f)) as fh:
                keys.append(json.load(fh)["key"])
    return r.returncode, r.stdout, keys


ALL_PROPS = False


def one(mut):
    t0 = time.time()
    scratch = tempfile.mkdtemp(prefix="verif-mutant-")
    evid = tempfile.mkdtemp(prefix="verif-mutant-ev-")
    res = {"id": mut["id"], "prop": mut["prop"], "expect": mut["expect"]}
    try:
        copy_repo(scratch)
        if "patch" in mut:
            r = subprocess.run(["patch", "-p1", "-s", "-i", mut["patch"]], cwd=scratch, stdout=subprocess.PIPE, stderr=subprocess.STDOUT, text=True)
            if r.returncode != 0:
                res.update(status="patch-failed", detail=r.stdout[-500:])
                return res
        else:
            p = os.path.join(scratch, mut["file"])
            src = open(p).read()
            n = src.count(mut["old"])
            if n != 1:
                res.update(status="anchor-missing", detail="old text occurs %d times in %s" % (n, mut["file"]))
                return res
            open(p, "w").write(src.replace(mut["old"], mut["new"]))
        rc, out, keys = run_check(mut["prop"], scratch, evid)
        if "does not type-check" in out or "fact extraction failed" in out:
            res.update(status="does-not-compile", detail=out[-800:])
            return res
        hit = [k for k in keys if mut["expect"] in k]
        if mut.get("silent"):
            res.update(status="silent-ok" if rc == 0 else "FALSE-ALARM", violations=keys, hit=[], wall_s=round(time.time() - t0, 1))
        else:
            res.update(status="caught" if (rc == 1 and hit) else ("fired-elsewhere" if rc == 1 else "MISSED"),
                       violations=keys, hit=hit, wall_s=round(time.time() - t0, 1))
        if ALL_PROPS:
            others = {}
            for i in range(1, 21):
                q = "C%02d" % i
                if q == mut["prop"]:
                    continue
                shutil.rmtree(os.path.join(evid, "violations"), ignore_errors=True)
                rc2, out2, keys2 = run_check(q, scratch, evid)
                if rc2 != 0:
                    others[q] = keys2 or [out2[-300:]]
            res["other_checks_firing"] = others
            res["wall_s"] = round(time.time() - t0, 1)
        return res
    finally:
        shutil.rmtree(scratch, ignore_errors=True)
        shutil.rmtree(evid, ignore_errors=True)


def load_mutants(args):
    # loaded by path: when this file is imported as module `selftest` (thorough tier) the package of the same name is shadowed
    import importlib.util
    spec = importlib.util.spec_from_file_location("verif_selftest_mutants", os.path.join(HERE, "selftest", "mutants.py"))
    mm = importlib.util.module_from_spec(spec)
    spec.loader.exec_module(mm)
    ms = list(mm.M)
    if args.seeded:
        ms = []
        sd = os.path.join(HERE, "seeded")
        for d in sorted(os.listdir(sd)) if os.path.isdir(sd) else []:
            meta = os.path.join(sd, d, "meta.json")
            if os.path.exists(meta):
                mj = json.load(open(meta))
                ms.append({"id": "seeded-" + d, "prop": mj["property"], "expect": mj.get("expect", mj["property"]), "patch": os.path.join(sd, d, "patch.diff")})
    if args.prop:
        ms = [m for m in ms if m["prop"] == args.prop]
    if args.id:
        ms = [m for m in ms if m["id"] in args.id]
    return ms


def run(ms, jobs):
    out = []
    with ThreadPoolExecutor(max_workers=jobs) as ex:
        for r in ex.map(one, ms):
            print("%-34s %-5s %-16s %s" % (r["id"], r["prop"], r["status"], (r.get("hit") or r.get("detail") or r.get("violations") or "")[:1] if isinstance(r.get("hit"), list) else r.get("detail", "")), flush=True)
            out.append(r)
    return out


def main():
    ap = argparse.ArgumentParser()
    ap.add_argument("--prop")
    ap.add_argument("--id", action="append")
    ap.add_argument("--jobs", type=int, default=3)
    ap.add_argument("--seeded", action="store_true")
    ap.add_argument("--out", default=os.path.join(HERE, "selftest", "results.json"))
    ap.add_argument("--all-props", action="store_true", help="also run every other property's check on the changed tree")
    a = ap.parse_args()
    global ALL_PROPS
    ALL_PROPS = a.all_props
    ms = load_mutants(a)
    res = run(ms, a.jobs)
    summary = {}
    for r in res:
        summary[r["status"]] = summary.get(r["status"], 0) + 1
    print("SUMMARY", summary)
    prev = {}
    if os.path.exists(a.out):
        try:
            prev = {r["id"]: r for r in json.load(open(a.out))["results"]}
        except Exception:
            prev = {}
    for r in res:
        prev[r["id"]] = r
    with open(a.out, "w") as fh:
        json.dump({"results": sorted(prev.values(), key=lambda r: r["id"])}, fh, indent=1)
    return 0 if all(r["status"] in ("caught", "silent-ok") for r in res) else 1


if __name__ == "__main__":
    sys.exit(main())
