"""Checker self-test catalogue (DESIGN.md appendix B): one planted change per rule.

Each mutant is a textual edit of a scratch copy of /repo (never of /repo itself).  `expect` is a substring that
the key of at least one reported violation must contain; `prop` is the check that must fire.  Whether a mutant
also passes the existing test suite is recorded in `suite` where it was established by hand ("pass" / "unknown").
"""

M = []


def m(id, prop, expect, file, old, new, note="", suite="unknown", silent=False):
    """silent=True: a behaviour-preserving edit; the check must stay quiet on it (false-alarm control)."""
    M.append({"id": id, "prop": prop, "expect": expect, "file": file, "old": old, "new": new, "note": note, "suite": suite, "silent": silent})


EX = "shuttle-engine/src/runtime/execution.rs"
# ---- C01 ------------------------------------------------------------------------------------------------
m("C01-push-only-on-change", "C01", "C01.R1", EX,
  "        self.current_task = self.next_task.take();\n\n        if let ScheduledTask::Some(tid) = self.current_task {\n            CurrentSchedule::push_task(tid);\n        }",
  "        let prev = self.current_task;\n        self.current_task = self.next_task.take();\n\n        if let ScheduledTask::Some(tid) = self.current_task {\n            if prev != self.current_task {\n                CurrentSchedule::push_task(tid);\n            }\n        }",
  "record a task step only when the chosen task differs")
m("C01-serve-then-record", "C01", "C01.R2", EX,
  "            CurrentSchedule::push_random();\n            state.scheduler.borrow_mut().next_u64()",
  "            let v = state.scheduler.borrow_mut().next_u64();\n            CurrentSchedule::push_random();\n            v",
  "draw served before it is recorded")
m("C01-schedule-seed-zero", "C01", "C01.R3", "shuttle-schedulers/src/random.rs",
  "            Some(Schedule::new(seed))", "            Some(Schedule::new(0))", "Random scheduler records seed 0")
m("C01-urw-no-reseed", "C01", "C01.R3", "shuttle-schedulers/src/urw.rs",
  "        self.rng = Pcg64Mcg::seed_from_u64(seed);\n        Some(Schedule::new(seed))", "        Some(Schedule::new(seed))",
  "URW does not re-seed its choice rng per iteration: the run is still a function of the constructor seed and replay uses the recorded choices, "
  "so neither C01 nor C10 is broken (control: must NOT fire)", silent=True)
m("C01-replay-cursor", "C01", "C01.R4", "shuttle-schedulers/src/replay.rs",
  "            ScheduleStep::Random => {\n                self.steps += 1;\n                self.data_source.next_u64()",
  "            ScheduleStep::Random => {\n                let v = self.data_source.next_u64();\n                self.steps += 1;\n                v",
  "replay serves a draw before advancing the cursor")
m("C01-id-from-live", "C01", "C01.R5", EX,
  "            let schedule_len = CurrentSchedule::len();\n            let parent_span_id = state.top_level_span.id();\n\n            let task_id = TaskId(state.tasks.len());",
  "            let schedule_len = CurrentSchedule::len();\n            let parent_span_id = state.top_level_span.id();\n\n            let task_id = TaskId(state.live_tasks.len());",
  "spawn_future numbers tasks by live_tasks.len()")
m("C01-instant-tiebreak", "C01", "C01.R6", "shuttle-schedulers/src/random.rs",
  "        Some(runnable.choose(&mut self.rng).unwrap().id())",
  "        if std::time::Instant::now().elapsed().as_nanos() == u128::MAX {\n            return None;\n        }\n        Some(runnable.choose(&mut self.rng).unwrap().id())",
  "wall clock consulted inside next_task")
m("C01-hash-iteration", "C01", "C01.R6", "shuttle-engine/src/runtime/storage.rs",
  "        let key = self.order.pop_front()?;",
  "        let _ = self.order.pop_front()?;\n        let key = *self.locals.iter().find(|(_, v)| v.is_some())?.0;",
  "destructor order taken from the hash map")
# ---- C02 ------------------------------------------------------------------------------------------------
m("C02-notify-no-switch", "C02", "Condvar::notify_one", "shuttle-std/src/sync/condvar.rs",
  "    pub fn notify_one(&self) {\n        thread::switch();\n", "    pub fn notify_one(&self) {\n", "choice point removed from notify_one")
m("C02-store-no-switch", "C02", "atomic", "shuttle-std/src/sync/atomic/mod.rs",
  "        thread::switch();\n        self.inhale_clock();\n        *self.inner.borrow_mut() = val;", "        self.inhale_clock();\n        *self.inner.borrow_mut() = val;",
  "choice point removed from Atomic::store")
m("C02-release-no-switch", "C02", "BatchSemaphore::release", "shuttle-engine/src/future/batch_semaphore.rs",
  "    pub fn release(&self, num_permits: usize) {\n        thread::switch();\n", "    pub fn release(&self, num_permits: usize) {\n", "choice point removed from release")
m("C02-poll-guard", "C02", "C02.R3", "shuttle-engine/src/future/batch_semaphore.rs",
  "if self.never_polled && (will_succeed || blocking_is_not_commutative) {", "if self.never_polled && will_succeed {",
  "fair semaphores lose the pre-block choice point")
m("C02-spawn-no-exit-switch", "C02", "C02.R4", "shuttle-std/src/thread.rs",
  "    unsafe { spawn_named_unchecked(f, name, stack_size, true, caller) }", "    unsafe { spawn_named_unchecked(f, name, stack_size, false, caller) }",
  "spawned threads exit without a choice point")
# ---- C03 ------------------------------------------------------------------------------------------------
m("C03-state-in-waker", "C03", "C03.R1", "shuttle-engine/src/runtime/task/mod.rs",
  "        self.woken = true;\n        if self.state == TaskState::Sleeping {\n            self.unblock();\n        }",
  "        self.woken = true;\n        if self.state == TaskState::Sleeping {\n            self.state = TaskState::Runnable;\n        }",
  "second writer of Task.state")
m("C03-spurious-counts", "C03", "finished-ignores-spurious", EX,
  "                self.runnable_tasks.push(task as *const Task);\n            }\n        }\n\n        // We should finish",
  "                any_runnable = true;\n                self.runnable_tasks.push(task as *const Task);\n            }\n        }\n\n        // We should finish",
  "spuriously wakeable tasks count as able to progress")
m("C03-deadlock-ignores-detached", "C03", "deadlock-depends", EX,
  "if state.tasks.iter().any(|t| !t.finished() && !t.detached) {", "if state.tasks.iter().any(|t| !t.finished()) {", "detached tasks cause deadlock reports")
m("C03-recv-no-yield", "C03", "C03.R3", "shuttle-std/src/sync/mpsc.rs",
  "                \"blocking receiver {:?} on channel {:p}\",\n                me,\n                self,\n            );\n            ExecutionState::with(|s| s.current_mut().block(false));\n            drop(state);\n\n            thread::switch();",
  "                \"blocking receiver {:?} on channel {:p}\",\n                me,\n                self,\n            );\n            ExecutionState::with(|s| s.current_mut().block(false));\n            drop(state);",
  "receiver blocks itself without yielding")
# ---- C04 ------------------------------------------------------------------------------------------------
m("C04-write-amount", "C04", "C04.R1", "shuttle-std/src/sync/rwlock.rs",
  "            Self::Write => MAX_READS,", "            Self::Write => MAX_READS - 1,", "a writer leaves one permit for a reader")
m("C04-readguard-releases-write", "C04", "C04.R1", "shuttle-std/src/sync/rwlock.rs",
  "        self.rwlock.semaphore.release(RwLockType::Read.num_permits());", "        self.rwlock.semaphore.release(RwLockType::Write.num_permits());",
  "read guard releases the write amount")
m("C04-d2-regression", "C04", "RwLock::try_read", "shuttle-std/src/sync/rwlock.rs",
  "            if !acquired {\n                // The attempt failed after the permits were taken (re-entrant read): give them back so\n                // that a failed `try_read` leaves the lock unchanged.\n                self.semaphore.release(typ.num_permits());\n            }\n",
  "", "regression of the D2 fix", suite="pass")
m("C04-swap-two-steps", "C04", "atomic-window", "shuttle-std/src/sync/atomic/mod.rs",
  "        self.exhale_clock(); // for the load\n        self.inhale_clock(); // for the store\n        std::mem::swap(&mut *self.inner.borrow_mut(), &mut val);\n        val",
  "        self.exhale_clock(); // for the load\n        let old = *self.inner.borrow();\n        thread::switch();\n        self.inhale_clock(); // for the store\n        *self.inner.borrow_mut() = val;\n        old",
  "swap yields between its load half and its store half")
m("C04-poison-unblocks", "C04", "C04.R4", "shuttle-engine/src/future/batch_semaphore.rs",
  "            for waiter in &state.waiters {\n                waiter.is_queued.swap(false, Ordering::SeqCst);\n            }\n            state.waiters.clear();\n            state.closed = true;\n            return;",
  "            for waiter in &state.waiters {\n                waiter.is_queued.swap(false, Ordering::SeqCst);\n            }\n            state.waiters.clear();\n            return;",
  "panicking release does not close the semaphore")
# ---- C05 ------------------------------------------------------------------------------------------------
m("C05-notify-all-first-only", "C05", "notify-unblocks-in-loop", "shuttle-std/src/sync/condvar.rs",
  "        for (tid, status) in state.waiters.iter_mut() {\n            assert_ne!(*tid, me);\n            *status = CondvarWaitStatus::Broadcast(",
  "        if let Some((tid, status)) = state.waiters.first_mut() {\n            assert_ne!(*tid, me);\n            *status = CondvarWaitStatus::Broadcast(",
  "notify_all releases only the first waiter")
m("C05-token-after-epoch", "C05", "leader-token", "shuttle-std/src/sync/barrier.rs",
  "            assert!(state.leader_tokens.insert(my_epoch));\n\n            // Drain the set of waiters and increment the barrier's epoch, so any other task that\n            // calls `wait` from now on becomes part of a separate group with its own leader.\n            let waiters = state.waiters.drain().collect::<Vec<_>>();\n            state.epoch += 1;",
  "            let waiters = state.waiters.drain().collect::<Vec<_>>();\n            state.epoch += 1;\n            let e = state.epoch;\n            assert!(state.leader_tokens.insert(e));",
  "leader token inserted for the next generation")
m("C05-wait-enqueue-late", "C05", "wait-enqueues-before-block", "shuttle-std/src/sync/condvar.rs",
  "        state.waiters.push((me, CondvarWaitStatus::Waiting));\n        drop(state);\n\n        // TODO: Condvar::wait should allow for spurious wakeups.\n        ExecutionState::with(|s| s.current_mut().block(false));",
  "        drop(state);\n\n        ExecutionState::with(|s| s.current_mut().block(false));\n        self.state.borrow_mut().waiters.push((me, CondvarWaitStatus::Waiting));",
  "waiter registers itself after blocking")
# ---- C06 ------------------------------------------------------------------------------------------------
m("C06-recv-pop", "C06", "recv-takes-front", "shuttle-std/src/sync/mpsc.rs",
  "        let item = state.messages.remove(0);", "        let item = state.messages.pop().unwrap();", "LIFO receive")
m("C06-receiver-drop-silent", "C06", "last-drop-wakes-peers|Receiver", "shuttle-std/src/sync/mpsc.rs",
  "            // Last receiver was dropped; wake up all senders\n            for &tid in state.waiting_senders.iter() {\n                ExecutionState::with(|s| s.get_mut(tid).unblock());\n            }",
  "            // Last receiver was dropped", "dropping the receiver does not wake blocked senders")
m("C06-send-no-recheck", "C06", "recheck-after-wake|send_internal", "shuttle-std/src/sync/mpsc.rs",
  "            if state.known_receivers == 0 {\n                state.waiting_senders.retain(|t| *t != me);\n                // No receivers are left, so the channel is disconnected.  Stop and return failure.\n                return Err(TrySendError::Disconnected(message));\n            }\n\n            let head = state.waiting_senders.remove(0);",
  "            let head = state.waiting_senders.remove(0);", "woken sender does not re-check disconnection")
# ---- C07 ------------------------------------------------------------------------------------------------
m("C07-result-before-destructors", "C07", "destructors-then-result", "shuttle-engine/src/thread_support.rs",
  "    tracing::trace!(\"thread finished, dropping thread locals\");\n",
  "    tracing::trace!(\"thread finished, dropping thread locals\");\n    let published = std::sync::Arc::clone(&result);\n    let _ = &published;\n",
  "(no-op variant; real reorder is C07-wake-before-result)")
M.pop()
m("C07-pop-back", "C07", "pop-takes-front", "shuttle-engine/src/runtime/storage.rs",
  "        let key = self.order.pop_front()?;", "        let key = self.order.pop_back()?;", "destructors run in reverse initialisation order")
m("C07-wake-before-result", "C07", "result-then-wake", "shuttle-engine/src/thread_support.rs",
  "    *result.lock().unwrap() = Some(Ok(ret));\n    ExecutionState::with(|state| {\n        if let Some(waiter) = state.current_mut().take_waiter() {\n            state.get_mut(waiter).unblock();\n        }\n    });",
  "    ExecutionState::with(|state| {\n        if let Some(waiter) = state.current_mut().take_waiter() {\n            state.get_mut(waiter).unblock();\n        }\n    });\n    *result.lock().unwrap() = Some(Ok(ret));",
  "joiner woken before the result is stored")
# ---- C08 ------------------------------------------------------------------------------------------------
m("C08-yield-flag-sticky", "C08", "arg3-yield-flag", EX,
  "        let is_yielding = std::mem::replace(&mut self.has_yielded, false);", "        let is_yielding = self.has_yielded;", "yield flag never reset")
m("C08-metrics-forwards-false", "C08", "args-unchanged", "shuttle-engine/src/scheduler/metrics.rs",
  "        let choice = self.inner.next_task(runnable_tasks, current_task, is_yielding)?;", "        let choice = self.inner.next_task(runnable_tasks, current_task, false)?;",
  "metrics wrapper drops the yielding flag")
m("C08-portfolio-returns-current", "C08", "C08.R4", "shuttle-engine/src/runtime/runner.rs",
  "        if self.stop_signal.load(Ordering::SeqCst) {\n            None\n        } else {\n            self.scheduler.next_task(runnable_tasks, current_task, is_yielding)\n        }",
  "        let c = self.scheduler.next_task(runnable_tasks, current_task, is_yielding);\n        if self.stop_signal.load(Ordering::SeqCst) {\n            None\n        } else {\n            c.map(|_| runnable_tasks[0].id())\n        }",
  "portfolio wrapper replaces the inner choice")
# ---- C10 ------------------------------------------------------------------------------------------------
m("C10-choose-half", "C10", "choose-on-offered-slice", "shuttle-schedulers/src/random.rs",
  "        Some(runnable.choose(&mut self.rng).unwrap().id())", "        Some(runnable[..1.max(runnable.len() / 2)].choose(&mut self.rng).unwrap().id())",
  "only the first half of the offered tasks can be chosen")
# ---- C12 ------------------------------------------------------------------------------------------------
m("C12-persist-late", "C12", "C12.R1", EX,
  "                        e.persist_failure(config);\n\n                        match e {\n                            StepError::TaskFailure(payload) => {",
  "                        match e {\n                            StepError::TaskFailure(payload) => {\n                                persist_failure(config);",
  "only task failures persist; deadlocks are raised without a schedule")
m("C12-d5-hook-regression", "C12", "hook-reads-thread-state", "shuttle-engine/src/runtime/failure.rs",
  "            persist_failure(current.as_ref().unwrap_or(&config));", "            let _ = &current;\n            persist_failure(&config);", "regression of the D5 fix (hook)", suite="pass")
m("C12-d5-marker-regression", "C12", "marker-reset-per-run", "shuttle-engine/src/runtime/failure.rs",
  "    SCHEDULE_PERSISTED_AT.set(0);\n", "", "regression of the D5 fix (marker)", suite="pass")
# ---- C13 ------------------------------------------------------------------------------------------------
m("C13-continue-after-late", "C13", "C13.R", EX,
  "                if self.is_step_bound_exceeded(max_steps) {\n                    // TODO: We have to set `Stopped` and return `Ok` here, else assertions will fail. This should probably be cleaned up.\n                    self.next_task = ScheduledTask::Stopped;\n                    return Ok(());\n                }",
  "                let _ = max_steps;", "ContinueAfter bound never enforced in schedule()")
# ---- C14 ------------------------------------------------------------------------------------------------
m("C14-labels-not-cleared", "C14", "LABELS", EX,
  "        LABELS.with(|cell| cell.borrow_mut().clear());\n\n        EXECUTION_STATE.set(", "\n        EXECUTION_STATE.set(",
  "regression of the D8 fix: labels of a failed run leak into the next run on the thread", suite="pass")
m("CTL-C14-cleanup-clear-removed", "C14", "", EX,
  "        LABELS.with(|cell| cell.borrow_mut().clear());\n\n        #[cfg(debug_assertions)]", "\n        #[cfg(debug_assertions)]",
  "the (now redundant) clear of LABELS in cleanup is dropped: every execution still starts with empty labels (reset on entry)", silent=True)
m("C14-new-static", "C14", "LAST_TASKS", EX,
  "thread_local! {\n    pub static LABELS:", "thread_local! {\n    pub static LAST_TASKS: std::cell::Cell<usize> = const { std::cell::Cell::new(0) };\n}\n\nthread_local! {\n    pub static LABELS:",
  "new thread-local without reset")
m("C14-pool-unconditional", "C14", "C14.R4", "shuttle-engine/src/runtime/thread/continuation.rs",
  "        if c.reusable() {\n            self.queue.borrow_mut().push_back(c);\n        } else if matches!(c.state, ContinuationState::Initialized) {",
  "        if c.reusable() || matches!(c.state, ContinuationState::Ready) {\n            self.queue.borrow_mut().push_back(c);\n        } else if matches!(c.state, ContinuationState::Initialized) {",
  "suspended continuations are recycled")
# ---- C15 ------------------------------------------------------------------------------------------------
m("C15-condvar-no-merge", "C15", "condvar|wait", "shuttle-std/src/sync/condvar.rs",
  "                // Woken by a broadcast, so nothing to do except update the clock\n                ExecutionState::with(|s| s.update_clock(&clock));",
  "                let _ = clock;", "broadcast wake does not merge the notifier's clock")
m("C15-recv-no-publish", "C15", "mpsc-bounded-recv-publishes", "shuttle-std/src/sync/mpsc.rs",
  "                    receiver_clock.push(s.get_clock(me).clone());", "                    let _ = s.get_clock(me);", "recv -> freed send edge lost")
m("C15-join-take-first", "C15", "C15.E|join", "shuttle-std/src/thread.rs",
  "        ExecutionState::with(|state| {\n            let target = state.get_mut(self.task_id);\n            let clock = target.clock.clone();\n            state.update_clock(&clock);\n        });\n\n        self.result.lock().unwrap().take().expect(\"target should have finished\")",
  "        let r = self.result.lock().unwrap().take().expect(\"target should have finished\");\n        if r.is_ok() {\n            ExecutionState::with(|state| {\n                let target = state.get_mut(self.task_id);\n                let clock = target.clock.clone();\n                state.update_clock(&clock);\n            });\n        }\n        r",
  "join merges the clock only for Ok results, after taking")
# ---- C16 ------------------------------------------------------------------------------------------------
m("C16-index-regression", "C16", "C16.R1", "shuttle-engine/src/scheduler/serialization.rs",
  "    let (&version, mut bytes) = bytes.split_first()?;", "    let version = bytes[0];\n    let mut bytes = &bytes[1..];", "regression of the D1 fix", suite="pass")
m("C16-seed-before-len", "C16", "C16.R2", "shuttle-engine/src/scheduler/serialization.rs",
  "    let schedule_len = usize::try_from(bytes.read_u64_varint().ok()?).ok()?;\n    let seed = bytes.read_u64_varint().ok()?;",
  "    let seed = bytes.read_u64_varint().ok()?;\n    let schedule_len = usize::try_from(bytes.read_u64_varint().ok()?).ok()?;", "reader swaps two header fields")
# ---- C17 ------------------------------------------------------------------------------------------------
m("C17-switch-before-sleep", "C17", "no-yield-between-poll-and-sleep", "shuttle-engine/src/future/mod.rs",
  "            Poll::Pending => {\n                ExecutionState::with(|state| state.current_mut().sleep_unless_woken());\n                thread::switch();",
  "            Poll::Pending => {\n                thread::switch();\n                ExecutionState::with(|state| state.current_mut().sleep_unless_woken());\n                thread::switch();",
  "yield between poll and sleep")
m("C17-wake-only-sleeping", "C17", "wake-sets-woken", "shuttle-engine/src/runtime/task/mod.rs",
  "        self.woken = true;\n        if self.state == TaskState::Sleeping {\n            self.unblock();\n        }",
  "        if self.state == TaskState::Sleeping {\n            self.woken = true;\n            self.unblock();\n        }", "a wake of a running task is not recorded")
m("C17-drop-aborts", "C17", "drop-detaches", "shuttle-std/src/future.rs",
  "            if !state.is_finished() {\n                state.get_mut(self.task_id).detach();\n            }\n        });\n        if let Err(e) = res {\n            tracing::error!(\"`JoinHandle::drop` failed",
  "            if !state.is_finished() {\n                state.get_mut(self.task_id).detach();\n                state.get_mut(self.task_id).abort();\n            }\n        });\n        if let Err(e) = res {\n            tracing::error!(\"`JoinHandle::drop` failed",
  "dropping a JoinHandle cancels the task")
# ---- C18 ------------------------------------------------------------------------------------------------
m("C18-remove-keeps-flag", "C18", "dequeue", "shuttle-engine/src/future/batch_semaphore.rs",
  "        state.waiters.remove(index).unwrap();\n        assert!(waiter.is_queued.swap(false, Ordering::SeqCst));", "        state.waiters.remove(index).unwrap();",
  "remove_waiter leaves is_queued set")
m("C18-drop-keeps-permits", "C18", "drop-returns-granted", "shuttle-engine/src/future/batch_semaphore.rs",
  "        } else if self.waiter.has_permits.load(Ordering::SeqCst) && !self.completed {\n            // If the waiter was granted permits, release them\n            self.semaphore.release(self.waiter.num_permits);\n        }",
  "        }", "cancelled acquisition keeps its permits")
m("C18-fair-ignores-queue", "C18", "grant-guard|waiters.is_empty", "shuttle-engine/src/future/batch_semaphore.rs",
  "        } else if self.waiters.is_empty() || matches!(fairness, Fairness::Unfair) {", "        } else if self.waiters.len() < usize::MAX || matches!(fairness, Fairness::Unfair) {",
  "new requests overtake queued waiters")
# ---- C19 ------------------------------------------------------------------------------------------------
m("C19-try_recv-no-release", "C19", "returns-capacity", "wrappers/tokio/impls/tokio/inner/src/sync/mpsc.rs",
  "                if self.chan.is_bounded() {\n                    self.chan.send_semaphore.release(1);\n                }\n                Ok(message)",
  "                Ok(message)", "try_recv does not give the slot back", suite="unknown")
m("C19-mutex-unfair", "C19", "C19.R3", "wrappers/tokio/impls/tokio/inner/src/sync/mutex.rs",
  "            semaphore: BatchSemaphore::new(1, Fairness::StrictlyFair),", "            semaphore: BatchSemaphore::new(1, Fairness::Unfair),", "tokio Mutex loses FIFO fairness")
m("C19-downgrade-all", "C19", "downgrade", "wrappers/tokio/impls/tokio/inner/src/sync/rwlock.rs",
  "        let RwLockWriteGuard { sem, data, .. } = self;\n        let to_release = self.permits_acquired - 1;",
  "        let RwLockWriteGuard { sem, data, .. } = self;\n        let to_release = self.permits_acquired;", "downgrade releases every permit")
# ---- C20 ------------------------------------------------------------------------------------------------
m("C20-upgradable-leak", "C20", "try_lock_upgradable", "wrappers/parking_lot/parking_lot_impl/src/raw_rwlock.rs",
  "            // Roll back the upgradable slot so we don't leak it.\n            self.upgradable_sem.release(1);\n            return false;",
  "            return false;", "failed try_lock_upgradable keeps the slot")
m("C20-downgrade-all", "C20", "downgrade", "wrappers/parking_lot/parking_lot_impl/src/raw_rwlock.rs",
  "        trace!(\"downgrading parking_lot rwlock {:p} (exclusive -> shared)\", self);\n        self.sem.release(MAX_READERS - 1);",
  "        trace!(\"downgrading parking_lot rwlock {:p} (exclusive -> shared)\", self);\n        self.sem.release(MAX_READERS);", "downgrade lets a writer in")
m("C20-dashmap-two-locks", "C20", "one-lock|shuttle_dashmap_impl::DashMap::remove_if", "wrappers/dashmap/dashmap_impl/src/lib.rs",
  "        let mut guard = self.inner.write().unwrap();\n        if let Some((k, v)) = guard.remove_entry(key) {\n            if f(&k, &v) {\n                return Some((k, v));\n            }\n            guard.insert(k, v);\n        }\n        None",
  "        let hit = self.inner.read().unwrap().get_key_value(key).map(|(k, v)| f(k, v)).unwrap_or(false);\n        if hit {\n            return self.inner.write().unwrap().remove_entry(key);\n        }\n        None",
  "check under read lock, remove under a second write lock")
m("C20-bitor-regression", "C20", "provenance|HashSet", "wrappers/collections/deterministic_collections/src/lib.rs",
  "        self.0.union(&rhs.0).cloned().collect()", "        HashSet(self.0.bitor(&rhs.0))", "regression of the D4 fix", suite="pass")
m("C20-stdrng-original", "C20", "C20.R4", "wrappers/shuttle_rand_0.8/shuttle_rand_inner/src/lib.rs",
  "    impl RngCore for StdRng {\n        #[inline(always)]\n        fn next_u32(&mut self) -> u32 {\n            self.0.next_u32()\n        }\n\n        #[inline(always)]\n        fn next_u64(&mut self) -> u64 {\n            self.0.next_u64()\n        }",
  "    impl RngCore for StdRng {\n        #[inline(always)]\n        fn next_u32(&mut self) -> u32 {\n            self.0.next_u32()\n        }\n\n        #[inline(always)]\n        fn next_u64(&mut self) -> u64 {\n            rand_orig::RngCore::next_u64(&mut rand_orig::thread_rng())\n        }",
  "StdRng draws from the original thread_rng")
# ---- added with the later rules (C09, C11, C13.R5, C16.R4, C19.R7, C04.R2b) -------------------------------------
DFS = "shuttle-schedulers/src/dfs.rs"
m("C09-backtrack-same-choice", "C09", "backtrack-takes-successor", DFS,
  "                let next_idx = runnable.iter().position(|t| t.id() == last_choice).unwrap() + 1;",
  "                let next_idx = (runnable.iter().position(|t| t.id() == last_choice).unwrap() + 2).min(runnable.len() - 1);",
  "a backtracking step skips a sibling")
m("C09-no-truncate", "C09", "truncate-before-push", DFS,
  "                self.levels.drain(self.steps..);\n                self.levels.push((next, next_idx == runnable.len() - 1));",
  "                self.levels[self.steps] = (next, next_idx == runnable.len() - 1);",
  "deeper levels survive a backtracking step")
m("C09-stop-without-iterations-test", "C09", "stops-when-exhausted", DFS,
  "        if self.iterations > 0 && !self.has_more_choices(0) {", "        if !self.has_more_choices(1.min(self.levels.len())) {",
  "exhaustion test ignores level 0")
m("C09-seed-from-os", "C09", "constant-seed", DFS,
  "        let data_source = FixedDataSource::initialize(DFS_RANDOM_SEED);", "        let data_source = FixedDataSource::initialize(rand::RngCore::next_u64(&mut rand::rngs::OsRng) | DFS_RANDOM_SEED);",
  "DFS data stream differs from run to run")
m("C09-seed-from-arg", "C09", "constant-seed", DFS,
  "        let data_source = FixedDataSource::initialize(DFS_RANDOM_SEED);", "        let data_source = FixedDataSource::initialize(max_iterations.map(|m| m as u64).unwrap_or(DFS_RANDOM_SEED));",
  "seed is a function of the configuration only: still a fixed stream (must NOT fire)", silent=True)
PCT = "shuttle-schedulers/src/pct.rs"
m("C11-depth-not-minus-one", "C11", "count-at-most-depth-minus-1", PCT,
  "            let num_points = std::cmp::min(self.max_depth - 1, self.max_steps - 1);", "            let num_points = std::cmp::min(self.max_depth, self.max_steps - 1);",
  "depth change points instead of depth-1")
m("C11-iterations-twice", "C11", "iterations-once-per-execution", PCT,
  "            self.next_priority = self.priorities.len();\n", "            self.next_priority = self.priorities.len();\n            self.iterations += 1;\n",
  "iterations counted twice after the first execution")
m("C13-random-budget-off", "C13", "C13.R5", "shuttle-schedulers/src/random.rs",
  "        if self.iterations >= self.max_iterations {\n            self.current_seed.clear();\n            None\n        } else {\n            self.iterations += 1;",
  "        if self.iterations >= self.max_iterations {\n            self.current_seed.clear();\n            None\n        } else {\n            self.iterations += 1 + (self.iterations & 1);",
  "iterations advance by two every other execution", suite="unknown")
SER = "shuttle-engine/src/scheduler/serialization.rs"
m("C16-writer-stride", "C16", "C16.R4", SER,
  "                offset += 1 + task_id_bits;", "                offset += task_id_bits + 2;", "writer leaves a gap bit after each task id")
m("C16-reader-range", "C16", "C16.R4", SER,
  "            let start = offset.checked_add(1)?;\n            let end = start.checked_add(task_id_bits)?;",
  "            let start = offset.checked_add(1)?;\n            let end = start.checked_add(task_id_bits)?.checked_add(0)?;\n            let start = start.checked_add(0)?;",
  "behaviour-preserving rewrite of the reader (must NOT fire)", suite="pass", silent=True)
NOTIFY = "wrappers/tokio/impls/tokio/inner/src/sync/notify.rs"
m("C19-notify-loses-permit", "C19", "notify_one-stores-permit", NOTIFY,
  "            // No pending waiters, so just record the fact that a notify is pending\n            state.pending = true;",
  "            // No pending waiters, so just record the fact that a notify is pending\n            state.pending = !state.waiters.is_empty();",
  "notify_one with only un-enabled waiters registered loses the permit")
m("C04-holder-before-acquire", "C04", "holder-after-acquire", "shuttle-std/src/sync/mutex.rs",
  "        let mut state = self.state.borrow_mut();\n        trace!(holder=?state.holder, semaphore=?self.semaphore, \"trying to acquire mutex {:p}\", self);\n        drop(state);",
  "        let mut state = self.state.borrow_mut();\n        trace!(holder=?state.holder, semaphore=?self.semaphore, \"trying to acquire mutex {:p}\", self);\n        if state.holder.is_none() {\n            state.holder = Some(me);\n        }\n        drop(state);",
  "try_lock records itself as holder before it owns the permit")
# ---- behaviour-preserving controls (refactorings a maintainer might do): every check must stay silent --------------------
m("CTL-C14-extract-reset-helper", "C14", "", EX,
  "        TASK_ID_TO_TAGS.with(|cell| cell.borrow_mut().clear());\n        LABELS.with(|cell| cell.borrow_mut().clear());\n\n        EXECUTION_STATE.set(",
  "        fn reset_side_tables() {\n            TASK_ID_TO_TAGS.with(|cell| cell.borrow_mut().clear());\n            LABELS.with(|cell| cell.borrow_mut().clear());\n        }\n        reset_side_tables();\n\n        EXECUTION_STATE.set(",
  "the two clears move into a local helper", silent=True)
m("CTL-C17-wake-reordered", "C17", "", "shuttle-engine/src/runtime/task/mod.rs",
  "        self.woken = true;\n        if self.state == TaskState::Sleeping {\n            self.unblock();\n        }",
  "        if matches!(self.state, TaskState::Sleeping) {\n            self.unblock();\n        }\n        self.woken = true;",
  "wake: unblock first, then set the flag (same effect)", silent=True)
m("CTL-C13-inline-bound-test", "C13", "", EX,
  "    fn is_step_bound_exceeded(&self, max_steps: usize) -> bool {\n        CurrentSchedule::len() - self.steps_reset_at >= max_steps\n    }",
  "    fn is_step_bound_exceeded(&self, max_steps: usize) -> bool {\n        let taken = CurrentSchedule::len() - self.steps_reset_at;\n        taken >= max_steps\n    }",
  "bound test through a temporary", silent=True)
m("CTL-C04-holder-one-liner", "C04", "", "shuttle-std/src/sync/mutex.rs",
  "        state = self.state.borrow_mut();\n        state.holder = Some(me);\n        drop(state);\n\n        trace!(semaphore=?self.semaphore, \"acquired mutex {:p}\", self);\n\n        // Grab a `MutexGuard` from the inner lock, which we must be able to acquire here\n        let result = match self.inner.try_lock() {\n            Ok(guard) => Ok(MutexGuard {\n                inner: Some(guard),\n                mutex: self,\n            }),\n            Err(TryLockError::Poisoned(guard)) => Err(TryLockError::Poisoned",
  "        self.state.borrow_mut().holder = Some(me);\n\n        trace!(semaphore=?self.semaphore, \"acquired mutex {:p}\", self);\n\n        // Grab a `MutexGuard` from the inner lock, which we must be able to acquire here\n        let result = match self.inner.try_lock() {\n            Ok(guard) => Ok(MutexGuard {\n                inner: Some(guard),\n                mutex: self,\n            }),\n            Err(TryLockError::Poisoned(guard)) => Err(TryLockError::Poisoned",
  "try_lock records the holder without the named borrow", silent=True)
m("CTL-C01-advance-match", "C01", "", EX,
  "        if let ScheduledTask::Some(tid) = self.current_task {\n            CurrentSchedule::push_task(tid);\n        }\n    }",
  "        match self.current_task {\n            ScheduledTask::Some(tid) => CurrentSchedule::push_task(tid),\n            _ => {}\n        }\n    }",
  "if-let rewritten as match", silent=True)
m("CTL-C09-successor-via-local", "C09", "", DFS,
  "                let next_idx = runnable.iter().position(|t| t.id() == last_choice).unwrap() + 1;",
  "                let prev_idx = runnable.iter().position(|t| t.id() == last_choice).unwrap();\n                let next_idx = prev_idx + 1;",
  "successor index through a temporary", silent=True)
m("CTL-C11-num-points-split", "C11", "", PCT,
  "            let num_points = std::cmp::min(self.max_depth - 1, self.max_steps - 1);",
  "            let by_depth = self.max_depth - 1;\n            let by_steps = self.max_steps - 1;\n            let num_points = std::cmp::min(by_depth, by_steps);",
  "min operands through temporaries", silent=True)
m("CTL-C07-order-remove0", "C07", "", "shuttle-engine/src/runtime/storage.rs",
  "        let key = self.order.pop_front()?;",
  "        if self.order.is_empty() {\n            return None;\n        }\n        let key = self.order.remove(0)?;",
  "front taken with remove(0) (order-preserving)", silent=True)
m("CTL-C16-range-contains", "C16", "", SER,
  "    if task_id_bits == 0 || task_id_bits > usize::BITS as usize {", "    if !(1..=usize::BITS as usize).contains(&task_id_bits) {",
  "width validation spelled as an inclusive range test", silent=True)
m("C16-width-off-by-one", "C16", "reader-accepts-every-writer-width", SER,
  "    if task_id_bits == 0 || task_id_bits > usize::BITS as usize {", "    if task_id_bits == 0 || task_id_bits >= usize::BITS as usize {",
  "reader rejects the widest id width the writer can emit")
m("C13-d9-regression", "C13", "stopped-cleanup-is-a-no-op", EX,
  "            if state.in_cleanup && state.current_task == ScheduledTask::Stopped {\n                return false;\n            }\n", "",
  "regression of the D9 fix: a guard on the stack of an abandoned execution aborts the process", suite="pass")
m("CTL-C13-reset-helper", "C13", "", "shuttle-engine/src/current.rs",
  "    ExecutionState::with(|s| s.steps_reset_at = CurrentSchedule::len());",
  "    let now = CurrentSchedule::len();\n    ExecutionState::with(|s| s.steps_reset_at = now);",
  "reset value computed outside the closure", silent=True)
m("CTL-C08-flag-read-then-clear", "C08", "", EX,
  "        let is_yielding = std::mem::replace(&mut self.has_yielded, false);",
  "        let is_yielding = self.has_yielded;\n        self.has_yielded = false;",
  "flag consumed with read + store instead of mem::replace", silent=True)
m("CTL-C06-predicate-inlined-temp", "C06", "", "shuttle-std/src/sync/mpsc.rs",
  "        is_full || !state.waiting_senders.is_empty() || (is_rendezvous && state.waiting_receivers.is_empty())",
  "        if is_full {\n            return true;\n        }\n        if !state.waiting_senders.is_empty() {\n            return true;\n        }\n        is_rendezvous && state.waiting_receivers.is_empty()",
  "disjunction written as early returns", silent=True)
m("CTL-C18-poll-match", "C18", "", "shuttle-engine/src/future/batch_semaphore.rs",
  "        if self.waiter.has_permits.load(Ordering::SeqCst) {\n            assert!(!self.waiter.is_queued.load(Ordering::SeqCst));\n            self.completed = true;",
  "        let granted = self.waiter.has_permits.load(Ordering::SeqCst);\n        if granted {\n            assert!(!self.waiter.is_queued.load(Ordering::SeqCst));\n            self.completed = true;",
  "has_permits read into a named local", silent=True)
m("CTL-C02-switch-via-helper", "C02", "", "shuttle-std/src/sync/condvar.rs",
  "    pub fn notify_one(&self) {\n        thread::switch();\n",
  "    pub fn notify_one(&self) {\n        fn choice_point() {\n            thread::switch();\n        }\n        choice_point();\n",
  "the choice point is reached through a local helper", silent=True)
m("CTL-C10-choose-via-binding", "C10", "", "shuttle-schedulers/src/random.rs",
  "        Some(runnable.choose(&mut self.rng).unwrap().id())",
  "        let rng = &mut self.rng;\n        let picked = runnable.choose(rng);\n        Some(picked.unwrap().id())",
  "choose through local bindings", silent=True)
m("CTL-C19-release-after-binding", "C19", "", "wrappers/tokio/impls/tokio/inner/src/sync/mpsc.rs",
  "                if self.chan.is_bounded() {\n                    self.chan.send_semaphore.release(1);\n                }\n                Ok(message)",
  "                let bounded = self.chan.is_bounded();\n                if bounded {\n                    let sem = &self.chan.send_semaphore;\n                    sem.release(1);\n                }\n                Ok(message)",
  "slot returned through local bindings", silent=True)
m("CTL-C15-condvar-clock-once", "C15", "", "shuttle-std/src/sync/condvar.rs",
  "        let epoch = state.next_epoch;\n        for (tid, status) in state.waiters.iter_mut() {\n            assert_ne!(*tid, me);\n\n            let clock = current::clock();",
  "        let epoch = state.next_epoch;\n        let now = current::clock();\n        for (tid, status) in state.waiters.iter_mut() {\n            assert_ne!(*tid, me);\n\n            let clock = now.clone();",
  "notifier clock read once before the loop", silent=True)
MPSC = "shuttle-std/src/sync/mpsc.rs"
m("CTL-C06-chain-skipped-when-receiver-woken", "C06", "", MPSC,
  "        }\n        // Check and unblock the next the waiting sender, if eligible\n        if let Some(&tid) = state.waiting_senders.first() {",
  "        } else if let Some(&tid) = state.waiting_senders.first() {",
  "half A of seeded C06-b alone: recv's unconditional wake still releases the next sender", silent=True)
m("CTL-C06-recv-wake-only-if-was-full", "C06", "", MPSC,
  "            if bound > 0 || !state.waiting_receivers.is_empty() {\n                ExecutionState::with(|s| s.get_mut(tid).unblock());",
  "            let was_full = bound > 0 && state.messages.len() + 1 == bound;\n            if was_full || !state.waiting_receivers.is_empty() {\n                ExecutionState::with(|s| s.get_mut(tid).unblock());",
  "half B of seeded C06-b alone: the chain wake after a push still releases the next sender", silent=True)
m("CTL-C14-struct-tls-field-reset-in-init", "C14", "", EX,
  "        CURRENT_SCHEDULE.with(|cs| *cs.current_schedule.borrow_mut() = schedule)",
  "        CURRENT_SCHEDULE.with(|cs| {\n            let mut cur = cs.current_schedule.borrow_mut();\n            *cur = schedule;\n        })",
  "init overwrites the schedule through a named borrow", silent=True)
m("CTL-C18-grant-loop-let-else", "C18", "", "shuttle-engine/src/future/batch_semaphore.rs",
  "            } else {\n                return;\n            }\n        }\n    }\n}\n\n/// Counting semaphore",
  "            } else {\n                break;\n            }\n        }\n    }\n}\n\n/// Counting semaphore",
  "grant loop leaves with break instead of return", silent=True)
m("CTL-C12-persist-match", "C12", "", EX,
  "        if let StepError::StepBoundExceeded = self {\n            if let MaxSteps::ContinueAfter(_) = config.max_steps {\n                return;\n            }\n        }",
  "        match (self, &config.max_steps) {\n            (StepError::StepBoundExceeded, MaxSteps::ContinueAfter(_)) => return,\n            _ => {}\n        }",
  "the silent ContinueAfter exit written as a tuple match", silent=True)
