"""K11 — permit typestate: a small forward abstract interpreter over one function's MIR.

It computes, for a function, the set of *outcomes* of its normal entry->return paths:
    (abstract return value, ordered permit effects with their status, facts, param conditions)
and lets a rule observe the abstract state at chosen sites (e.g. where a guard is built).

Tracked:
  * semaphore identity: `&self.<field>` of type BatchSemaphore / Arc<BatchSemaphore>  -> ('field', 'Adt.field'),
    a parameter of that type -> ('param', i)
  * amounts: integer constants (folded through +,-,WithOverflow), parameters, ('?',)
  * boolean / Result / Option / ControlFlow / Poll values that stand for "event k succeeded",
    refined by SwitchInt; `unwrap`/`expect` refine to success (the other edge diverges)
  * discriminants of enum-typed parameters (so `typ.num_permits()` is resolved per variant)
In-repo callees that may reach a semaphore operation are summarised recursively (memoised) and
their outcomes are substituted at the call site.  Nothing is executed.
"""
from collections import deque

from .facts import Site, norm, operand_local, last_field

SEM = "shuttle_engine::future::batch_semaphore::BatchSemaphore::"
OP_TRY = SEM + "try_acquire"
OP_BLOCK = SEM + "acquire_blocking"
OP_ACQ = SEM + "acquire"
OP_REL = SEM + "release"
OP_UPG = SEM + "upgrade"
OP_CLOSED = SEM + "is_closed"
OP_CLOSE = {SEM + "close", SEM + "close_no_scheduling_point"}
SEM_OPS = {OP_TRY, OP_BLOCK, OP_ACQ, OP_REL, OP_UPG}

PASS_THROUGH = (
    "core::ops::deref::Deref::deref", "core::ops::deref::DerefMut::deref_mut",
    "core::convert::AsRef::as_ref", "core::borrow::Borrow::borrow", "core::clone::Clone::clone",
    "core::future::into_future::IntoFuture::into_future", "core::pin::Pin::new_unchecked", "core::pin::Pin::new",
    "core::pin::Pin::as_mut", "core::pin::Pin::get_mut", "alloc::boxed::Box::pin", "alloc::boxed::Box::new",
    "core::pin::Pin::into_inner", "core::pin::Pin::get_unchecked_mut", "core::pin::Pin::map_unchecked_mut",
)

MAX_LOG = 10
MAX_STATES = 60000


class Overflow(Exception):
    pass


def _is_pass(names):
    for n in names:
        for p in PASS_THROUGH:
            if n == p or n.endswith(p.split("::", 1)[1]) and n.startswith("<") and (" as " + p.rsplit("::", 1)[0]) in n:
                return True
    return False


class State:
    __slots__ = ("vals", "facts", "log", "tags")

    def __init__(self, vals=None, facts=None, log=(), tags=frozenset()):
        self.vals = vals or {}
        self.facts = facts or {}
        self.log = log
        self.tags = tags

    def copy(self):
        return State(dict(self.vals), dict(self.facts), self.log, self.tags)

    def key(self):
        return (frozenset(self.vals.items()), frozenset(self.facts.items()), self.log, self.tags)


class Config:
    """Hooks a rule may provide.

    opaque_opt:  {callee nkey: var name}  call result is an Option whose Some-ness is a fresh fact `var@site`
    queries:     {callee nkey: var name}  call result is a bool fact `var` (same name at every call)
    observe:     predicate(body, site, stmt) -> label or None; states are collected per label
    summarise:   predicate(nkey) -> bool  (override of which in-repo callees are summarised)
    """

    def __init__(self, opaque_opt=None, queries=None, observe=None, summarise=None, sem_types=None):
        self.opaque_opt = opaque_opt or {}
        self.queries = queries or {}
        self.observe = observe
        self.summarise = summarise
        self.sem_types = sem_types or ("BatchSemaphore",)


class Interp:
    def __init__(self, prog, config=None):
        self.prog = prog
        self.cfg = config or Config()
        self.summaries = {}
        self.in_progress = set()
        self.observed = {}
        self._reach_sem = None
        self.stats = {"functions": 0, "states": 0}

    # -- which callees get summarised -------------------------------------------------------
    def reaches_sem(self, nkey):
        if self._reach_sem is None:
            # reverse reachability from semaphore ops over the call graph
            rev = {}
            for k, cs in self.prog.callgraph.items():
                for c in cs:
                    rev.setdefault(c, set()).add(k)
            seen = set()
            dq = deque(SEM_OPS | OP_CLOSE)
            while dq:
                k = dq.popleft()
                if k in seen:
                    continue
                seen.add(k)
                for p in rev.get(k, ()):
                    if p not in seen:
                        dq.append(p)
            self._reach_sem = seen
        return nkey in self._reach_sem

    def should_summarise(self, nkey):
        if nkey.startswith(SEM) or nkey.startswith("shuttle_engine::") or nkey.startswith("<shuttle_engine::"):
            return False   # the semaphore itself (incl. `Acquire::drop`, decided under C18) is the modelled primitive
        b = self.prog.get(nkey)
        if b is None:
            return False
        if self.cfg.summarise is not None:
            r = self.cfg.summarise(nkey)
            if r is not None:
                return r
        if self.reaches_sem(nkey):
            return True
        if len(b.blocks) <= 6 and any(st["rv"]["k"] == "aggr" and st["rv"].get("ak") == "coroutine" for _, st in b.assigns()):
            return True   # `async fn` shell: returns its coroutine
        # small pure helpers returning an integer/bool (e.g. `RwLockType::num_permits`)
        return len(b.blocks) <= 12 and b.local_ty(0) in ("usize", "u32", "u64", "bool") and not any(True for _ in b.calls())

    # -- abstract values ---------------------------------------------------------------------
    def sem_of_place(self, body, st, pl):
        """Semaphore identity for a place expression (through derefs)."""
        lf = last_field(pl)
        base = pl["l"]
        if lf is not None:
            # type of the field
            adt, fld = lf.rsplit(".", 1)
            a = self.prog.adts.get(adt.split("::" + adt.split("::")[-1])[0] if False else adt)
            fty = None
            if a:
                for v in a["variants"]:
                    for f in v["fields"]:
                        if f["name"] == fld:
                            fty = f["ty"]
            if fty is None or any(t in fty for t in self.cfg.sem_types):
                return ("sem", ("field", lf))
            return None
        v = st.vals.get(base)
        if v and v[0] == "sem":
            return v
        if 1 <= base <= body.arg_count and any(t in body.local_ty(base) for t in self.cfg.sem_types):
            return ("sem", ("param", base))
        return None

    def val_of_operand(self, body, st, op):
        if op is None:
            return None
        if op.get("k") == "const":
            if "ev" in op:
                return ("c", op["ev"])
            if op.get("promoted") is not None and op.get("item"):
                return self.promoted_value(norm(op["item"]), op["promoted"])
            ty = op.get("ty", "")
            v = op.get("v", "")
            if "::" in v and not v.startswith("const \"") and norm(ty) in self.prog.adts:
                # unit-like enum constant, e.g. `const RwLockType::Read`
                name = v.replace("const ", "").strip()
                return ("enum", norm(ty), name.rsplit("::", 1)[-1])
            return None
        pl = op["pl"]
        return self.val_of_place(body, st, pl)

    def val_of_place(self, body, st, pl):
        base = pl["l"]
        proj = pl.get("p", [])
        v = st.vals.get(base)
        if not proj:
            if v is None and 1 <= base <= body.arg_count:
                return ("param", base)
            return v
        # look through derefs of refs
        cur = v
        i = 0
        while i < len(proj):
            p = proj[i]
            if p == "*":
                if cur and cur[0] == "ref":
                    cur = st.vals.get(cur[1]) if cur[1] not in range(1, body.arg_count + 1) or cur[1] in st.vals else ("param", cur[1])
                elif cur is None and 1 <= base <= body.arg_count and i == 0:
                    cur = ("pderef", base)
                elif cur and cur[0] in ("sem", "acqfut", "disc", "param", "pderef", "enum"):
                    pass
                else:
                    s = self.sem_of_place(body, st, {"l": base, "p": proj[:]})
                    return s
            elif p.startswith("T:") and cur and cur[0] == "ovf":
                cur = ("c", cur[1]) if p == "T:0" else ("c", False)
            elif p.startswith("T:") and cur and cur[0] == "ovfx":
                cur = cur[1] if p == "T:0" else ("c", False)
            elif p.startswith("D:"):
                pass
            elif p.startswith("F:") and cur and cur[0] == "poll" and p.endswith("Poll::Ready.0"):
                cur = ("disc", cur[1], 0)
            elif p.startswith("F:") and cur and cur[0] == "c_poll" and p.endswith("Poll::Ready.0"):
                cur = cur[2]
            elif p.startswith("F:") and cur and cur[0] == "disc":
                # payload of a Result/Option/ControlFlow that stands for an event: keep nothing
                cur = None
            else:
                s = self.sem_of_place(body, st, pl)
                return s
            i += 1
        return cur

    def promoted_value(self, fn_key, idx):
        b = self.prog.get("%s::promoted[%d]" % (fn_key, idx))
        if b is None:
            return None
        st = State()
        # straight-line evaluation of block 0
        for stmt in b.blocks[0]["stmts"]:
            if stmt["k"] != "assign":
                continue
            self.assign(b, st, stmt)
        v = st.vals.get(0)
        if v and v[0] == "ref":
            return st.vals.get(v[1])
        return v

    # -- transfer ------------------------------------------------------------------------------
    def assign(self, body, st, stmt):
        dst = stmt["dst"]
        rv = stmt["rv"]
        if dst.get("p"):
            # partial write: forget what we knew about the base
            st.vals.pop(dst["l"], None)
            return
        d = dst["l"]
        k = rv["k"]
        val = None
        if k == "use" or k == "copy_for_deref":
            if k == "use":
                op = rv["ops"][0]
                val = self.val_of_operand(body, st, op)
                if val is None and op.get("k") in ("copy", "move") and not op["pl"].get("p") and body.local_ty(op["pl"]["l"]) == "bool":
                    val = ("copyof", op["pl"]["l"])
                if val is None and op.get("k") in ("copy", "move") and op["pl"].get("p") and body.local_ty(d) in ("usize", "u32", "u64"):
                    val = self.sym_of_place(body, op["pl"])
            else:
                val = self.val_of_place(body, st, rv["pl"])
        elif k == "ref" or k == "rawptr":
            pl = rv["pl"]
            if not pl.get("p"):
                val = ("ref", pl["l"])
            else:
                val = self.val_of_place(body, st, pl)
                if val is None:
                    val = self.sem_of_place(body, st, pl)
        elif k == "cast":
            val = self.val_of_operand(body, st, rv["ops"][0])
        elif k == "discr":
            pv = self.val_of_place(body, st, rv["pl"])
            if pv and pv[0] == "disc":
                val = ("discr_of", pv[1], pv[2])
            elif pv and pv[0] == "enum":
                a = self.prog.adts.get(pv[1])
                if a:
                    names = [v["name"] for v in a["variants"]]
                    if pv[2] in names:
                        val = ("c", names.index(pv[2]))
            elif pv and pv[0] in ("param", "pderef"):
                val = ("pdisc", pv[1])
            elif pv and pv[0] == "poll":
                val = ("polldisc", pv[1])
            elif pv and pv[0] == "c_poll":
                val = ("c", pv[1])
        elif k == "unop" and rv.get("op") == "Not":
            v = self.val_of_operand(body, st, rv["ops"][0])
            if v and v[0] == "b":
                val = ("b", v[1], not v[2])
            elif v and v[0] == "c" and isinstance(v[1], (bool, int)):
                val = ("c", 0 if v[1] else 1)
            elif v and v[0] == "copyof":
                val = ("ncopyof", v[1])
        elif k == "binop":
            a = self.val_of_operand(body, st, rv["ops"][0])
            b = self.val_of_operand(body, st, rv["ops"][1])
            op = rv.get("op")
            if a and b and a[0] == "c" and b[0] == "c" and isinstance(a[1], int) and isinstance(b[1], int):
                x, y = a[1], b[1]
                if op in ("Add", "AddUnchecked"):
                    val = ("c", x + y)
                elif op in ("Sub", "SubUnchecked"):
                    val = ("c", x - y)
                elif op == "AddWithOverflow":
                    val = ("ovf", x + y)
                elif op == "SubWithOverflow":
                    val = ("ovf", x - y)
                elif op in ("Eq", "Ne", "Lt", "Le", "Gt", "Ge"):
                    val = ("c", int({"Eq": x == y, "Ne": x != y, "Lt": x < y, "Le": x <= y, "Gt": x > y, "Ge": x >= y}[op]))
            elif op in ("Sub", "SubWithOverflow", "Add", "AddWithOverflow") and a and b:
                t = ("expr", op[:3], a, b)
                val = ("ovfx", t) if op.endswith("Overflow") else t
        elif k == "aggr" and rv.get("ak") == "coroutine":
            val = ("corofut", norm(rv["def"]))
        elif k == "aggr":
            if rv.get("ak") == "adt" and not rv.get("ops"):
                val = ("enum", norm(rv["adt"]), rv["variant"])
            elif rv.get("ak") == "adt":
                val = ("adtv", norm(rv["adt"]), rv["variant"])
        if val is None:
            st.vals.pop(d, None)
        else:
            st.vals[d] = val

    def sym_of_place(self, body, pl):
        """Canonical symbolic name of an integer-valued place: the last field read (`Adt.field`),
        a bare parameter, or a bare upvar."""
        lf = last_field(pl)
        if lf:
            return ("sym", lf)
        if not (1 <= pl["l"] <= body.arg_count):
            return None
        ups = [p for p in pl.get("p", []) if p.startswith("U:")]
        others = [p for p in pl.get("p", []) if p != "*" and not p.startswith("U:")]
        if others:
            return None
        if ups:
            return ("sym", "upvar#" + ups[-1].rsplit("#", 1)[1])
        return ("param", pl["l"])

    def amount(self, body, st, op):
        v = self.val_of_operand(body, st, op)
        if v is None and op.get("k") in ("copy", "move"):
            v = self.sym_of_place(body, op["pl"])
        if v is None:
            return ("?",)
        if v[0] == "sym":
            return v
        if v[0] == "c":
            return ("c", v[1])
        if v[0] == "param":
            return ("param", v[1])
        if v[0] in ("expr", "amt"):
            return v
        if v[0] == "ovfx":
            return v[1]
        return ("?",)

    def sem_arg(self, body, st, op):
        v = self.val_of_operand(body, st, op)
        if v and v[0] == "sem":
            return v[1]
        if v and v[0] in ("param", "pderef") and any(t in body.local_ty(v[1]) for t in self.cfg.sem_types):
            return ("param", v[1])
        if v and v[0] == "ref":
            l = v[1]
            if 1 <= l <= body.arg_count and any(t in body.local_ty(l) for t in self.cfg.sem_types):
                return ("param", l)
            vv = st.vals.get(l)
            if vv and vv[0] == "sem":
                return vv[1]
        return ("?",)

    # ------------------------------------------------------------------------------------------
    def summary(self, nkey):
        if nkey in self.summaries:
            return self.summaries[nkey]
        if nkey in self.in_progress:
            return None
        b = self.prog.get(nkey)
        if b is None:
            return None
        self.in_progress.add(nkey)
        try:
            outs = self.run(b)
        finally:
            self.in_progress.discard(nkey)
        self.summaries[nkey] = outs
        return outs

    def run(self, body):
        """Returns list of outcomes: dict(ret, effects, facts, cond, tags)."""
        self.stats["functions"] += 1
        init = State()
        work = deque([(0, init)])
        seen = set()
        outcomes = {}
        nstates = 0
        while work:
            bb, st = work.popleft()
            key = (bb, st.key())
            if key in seen:
                continue
            seen.add(key)
            nstates += 1
            if nstates > MAX_STATES:
                raise Overflow("state budget exceeded in %s" % body.nkey)
            blk = body.blocks[bb]
            if blk.get("cleanup"):
                continue
            st = st.copy()
            for i, stmt in enumerate(blk["stmts"]):
                if stmt["k"] == "assign":
                    if self.cfg.observe is not None:
                        lab = self.cfg.observe(body, Site(bb, i), stmt, self, st)
                        if lab is not None:
                            self.observed.setdefault((body.nkey, lab), []).append((Site(bb, i), self.snapshot(st)))
                            if lab.startswith("tag:"):
                                st.tags = st.tags | {lab[4:]}
                    self.assign(body, st, stmt)
                elif stmt["k"] == "setdiscr":
                    st.vals.pop(stmt["dst"]["l"], None)
            t = blk["term"]
            k = t["k"]
            if k == "goto":
                work.append((t["target"], st))
            elif k == "return":
                for o in self.finish(body, st):
                    outcomes[self.okey(o)] = o
            elif k in ("unreachable", "resume", "terminate", "coroutine_drop"):
                pass
            elif k == "drop":
                # drop of a value holding permits is handled by rules through drop impl summaries
                for ns in self.do_drop(body, st, t, Site(bb, len(blk["stmts"]))):
                    work.append((t["target"], ns))
            elif k == "assert":
                work.append((t["target"], st))
            elif k == "yield":
                work.append((t["target"], st))
            elif k == "switch":
                for tgt, ns in self.do_switch(body, st, t):
                    work.append((tgt, ns))
            elif k == "call":
                if self.cfg.observe is not None:
                    lab = self.cfg.observe(body, Site(bb, len(blk["stmts"])), t, self, st)
                    if lab is not None:
                        self.observed.setdefault((body.nkey, lab), []).append((Site(bb, len(blk["stmts"])), self.snapshot(st)))
                for ns in self.do_call(body, st, t, Site(bb, len(blk["stmts"]))):
                    if t.get("target") is not None:
                        work.append((t["target"], ns))
            else:
                if t.get("target") is not None:
                    work.append((t["target"], st))
        self.stats["states"] += nstates
        return list(outcomes.values())

    def snapshot(self, st):
        return {"facts": dict(st.facts), "log": st.log, "tags": set(st.tags)}

    def okey(self, o):
        return (repr(o["ret"]), o["effects"], frozenset(o["facts"].items()), frozenset(o["cond"].items()), frozenset(o["tags"]))

    # -- effects --------------------------------------------------------------------------------
    def log_add(self, st, ev):
        if len(st.log) >= MAX_LOG:
            st.tags = st.tags | {"log-overflow"}
            return
        st.log = st.log + (ev,)

    def resolve_log(self, st, assign):
        eff = []
        for ev in st.log:
            if ev[0] == "acq":
                _, name, sem, amt, mode = ev
                status = st.facts.get(name, assign.get(name))
                eff.append(("acq", sem, amt, mode, "ok" if status else "fail"))
            else:
                eff.append(ev)
        return tuple(eff)

    def finish(self, body, st):
        # split on undecided event variables that matter (acquire statuses and the returned value)
        rv = st.vals.get(0)
        rv = self.resolve_copy(st, rv)
        undecided = []
        for ev in st.log:
            if ev[0] == "acq" and ev[1] not in st.facts:
                undecided.append(ev[1])
        if rv and rv[0] in ("b", "disc") and rv[1] not in st.facts and rv[1] not in undecided:
            undecided.append(rv[1])
        outs = []
        n = len(undecided)
        for mask in range(1 << n):
            assign = {undecided[i]: bool(mask >> i & 1) for i in range(n)}
            facts = dict(st.facts)
            facts.update(assign)
            ret = rv
            if rv and rv[0] == "b":
                ret = ("c", int(facts[rv[1]] == rv[2]))
            elif rv and rv[0] == "disc":
                ret = ("variant", rv[2] if facts[rv[1]] else 1 - rv[2])
            elif rv and rv[0] == "c":
                ret = rv
            elif rv and rv[0] in ("acqfut", "enum", "sem", "adtv", "corofut", "sym"):
                ret = rv
            else:
                ret = None
            cond = {k[1]: v for k, v in facts.items() if isinstance(k, tuple) and k[0] == "pdisc"}
            plain = {k: v for k, v in facts.items() if not (isinstance(k, tuple) and k[0] == "pdisc")}
            outs.append({"ret": ret, "effects": self.resolve_log(st, assign), "facts": plain, "cond": cond,
                         "tags": set(st.tags)})
        return outs

    def resolve_copy(self, st, v):
        seen = 0
        while v and v[0] in ("copyof", "ncopyof") and seen < 5:
            src = st.vals.get(v[1])
            if src is None:
                return None
            if v[0] == "ncopyof":
                if src[0] == "b":
                    return ("b", src[1], not src[2])
                if src[0] == "c":
                    return ("c", 0 if src[1] else 1)
                return None
            v = src
            seen += 1
        return v

    # -- switch ---------------------------------------------------------------------------------
    def do_switch(self, body, st, t):
        d = self.val_of_operand(body, st, t["discr"])
        arms = [(a[0], a[1]) for a in t["arms"]]
        other = t["otherwise"]
        dl = operand_local(t["discr"])
        out = []
        d0 = d
        if d and d[0] in ("copyof", "ncopyof"):
            r = self.resolve_copy(st, d)
            if r is not None:
                d = r
        if d and d[0] == "c" and isinstance(d[1], (int, bool)):
            val = int(d[1])
            for v, tgt in arms:
                if v == val:
                    return [(tgt, st)]
            return [(other, st)]
        if d and d[0] == "b":
            name, pol = d[1], d[2]
            if name in st.facts:
                truth = st.facts[name] == pol
                for v, tgt in arms:
                    if v == int(truth):
                        return [(tgt, st)]
                return [(other, st)]
            for v, tgt in arms:
                ns = st.copy()
                ns.facts[name] = (bool(v) == pol)
                out.append((tgt, ns))
            # otherwise edge: value not among arms
            armvals = {v for v, _ in arms}
            for cand in (0, 1):
                if cand not in armvals:
                    ns = st.copy()
                    ns.facts[name] = (bool(cand) == pol)
                    out.append((other, ns))
            return out
        if d and d[0] == "discr_of":
            name, dv = d[1], d[2]
            if name in st.facts:
                cur = dv if st.facts[name] else None
                res = []
                for v, tgt in arms:
                    if (v == dv) == st.facts[name]:
                        res.append((tgt, st))
                if not any((v == dv) for v, _ in arms) and st.facts[name]:
                    res.append((other, st))
                if not st.facts[name] and len([1 for v, _ in arms if v != dv]) == 0:
                    res.append((other, st))
                return res
            armvals = {v for v, _ in arms}
            for v, tgt in arms:
                ns = st.copy()
                ns.facts[name] = (v == dv)
                out.append((tgt, ns))
            # otherwise: all remaining discriminant values
            ns = st.copy()
            if dv in armvals:
                # other values all mean "not true" – but if every non-dv value is listed, otherwise is unreachable
                ns.facts[name] = False
                if len(armvals) < 2:
                    out.append((other, ns))
                # two-variant enums with both listed: otherwise is the unreachable block; keep it out
            else:
                ns.facts[name] = True
                out.append((other, ns))
            return out
        if d and d[0] == "pdisc":
            key = ("pdisc", d[1])
            if key in st.facts:
                for v, tgt in arms:
                    if v == st.facts[key]:
                        return [(tgt, st)]
                return [(other, st)]
            for v, tgt in arms:
                ns = st.copy()
                ns.facts[key] = v
                out.append((tgt, ns))
            return out  # `otherwise` of an exhaustive enum match is unreachable
        if d and d[0] == "polldisc":
            # 0 = Ready, 1 = Pending: both possible; Pending loops back
            return [(tgt, st) for v, tgt in arms] + [(other, st)]
        # unknown bool that is a plain copy of a named local: refine the source local
        if d0 and d0[0] in ("copyof", "ncopyof") and body.local_ty(d0[1]) == "bool":
            src = d0[1]
            neg = d0[0] == "ncopyof"
            armvals = {v for v, _ in arms}
            for v, tgt in arms:
                ns = st.copy()
                ns.vals[src] = ("c", int(bool(v) != neg))
                out.append((tgt, ns))
            for cand in (0, 1):
                if cand not in armvals:
                    ns = st.copy()
                    ns.vals[src] = ("c", int(bool(cand) != neg))
                    out.append((other, ns))
            return out
        if dl is not None and not t["discr"]["pl"].get("p") and body.local_ty(dl) == "bool" and body.local_name(dl):
            armvals = {v for v, _ in arms}
            for v, tgt in arms:
                ns = st.copy()
                ns.vals[dl] = ("c", int(v))
                out.append((tgt, ns))
            for cand in (0, 1):
                if cand not in armvals:
                    ns = st.copy()
                    ns.vals[dl] = ("c", cand)
                    out.append((other, ns))
            return out
        res = [(tgt, st) for v, tgt in arms] + [(other, st)]
        return res

    # -- drop -----------------------------------------------------------------------------------
    def do_drop(self, body, st, t, site):
        # dropping an Acquire future that never completed: no effect on permits held (cancel-safety is C18)
        outs = [st]
        for impl in body.drop_callees(t):
            if self.should_summarise(impl):
                summ = self.summary(impl)
                if summ:
                    outs = self.apply_summary(body, outs, t, site, impl, summ, args=[{"k": "move", "pl": t["pl"]}], is_drop=True)
        return outs

    # -- call -----------------------------------------------------------------------------------
    def do_call(self, body, st, t, site):
        names = body.callees_of_call(t, passed=False)
        dst = t["dst"]
        d = dst["l"] if not dst.get("p") else None
        args = t.get("args", [])
        ename = "%s@%s" % ("e", "%d" % site.bb)

        def setdst(s, v):
            if d is None:
                s.vals.pop(dst["l"], None)
            elif v is None:
                s.vals.pop(d, None)
            else:
                s.vals[d] = v
            return s

        # semaphore operations
        if OP_TRY in names or OP_BLOCK in names:
            ns = st.copy()
            sem = self.sem_arg(body, ns, args[0])
            amt = self.amount(body, ns, args[1])
            mode = "try" if OP_TRY in names else "blocking"
            self.log_add(ns, ("acq", ename, sem, amt, mode))
            ns.facts.pop(ename, None)
            return [setdst(ns, ("disc", ename, 0))]
        if OP_ACQ in names:
            ns = st.copy()
            sem = self.sem_arg(body, ns, args[0])
            amt = self.amount(body, ns, args[1])
            if not any(ev[0] == "acq" and ev[1] == ename for ev in ns.log):
                self.log_add(ns, ("acq", ename, sem, amt, "async"))
            return [setdst(ns, ("acqfut", ename))]
        if OP_UPG in names:
            ns = st.copy()
            sem = self.sem_arg(body, ns, args[0])
            a1 = self.amount(body, ns, args[1])
            a2 = self.amount(body, ns, args[2])
            self.log_add(ns, ("acq", ename, sem, ("upgrade", a1, a2), "upgrade"))
            return [setdst(ns, ("acqfut", ename))]
        if OP_REL in names:
            ns = st.copy()
            sem = self.sem_arg(body, ns, args[0])
            amt = self.amount(body, ns, args[1])
            self.log_add(ns, ("rel", sem, amt))
            return [setdst(ns, None)]
        if OP_CLOSED in names:
            ns = st.copy()
            sem = self.sem_arg(body, ns, args[0])
            return [setdst(ns, ("b", ("closed", sem), True))]
        if names & OP_CLOSE:
            ns = st.copy()
            sem = self.sem_arg(body, ns, args[0])
            self.log_add(ns, ("close", sem))
            return [setdst(ns, None)]

        if any(n.endswith("FromResidual::from_residual") or n.endswith("try_trait::FromResidual>::from_residual") for n in names):
            return [setdst(st.copy(), ("adtv", "residual", "Break"))]

        def argval(i):
            if i >= len(args):
                return None
            v = self.val_of_operand(body, st, args[i])
            if v and v[0] == "ref":
                vv = st.vals.get(v[1])
                return vv
            return v

        short = {n.split("::")[-1] for n in names}
        a0 = argval(0)
        # futures
        if any(n.endswith("future::future::Future::poll") or n.endswith("as core::future::future::Future>::poll") for n in names):
            if a0 and a0[0] == "acqfut":
                return [setdst(st.copy(), ("poll", a0[1]))]
        if any(n.endswith("::block_on") for n in names):
            if a0 and a0[0] == "acqfut":
                return [setdst(st.copy(), ("disc", a0[1], 0))]
            if a0 and a0[0] == "corofut":
                summ = self.summary(a0[1])
                if summ is not None:
                    return self.apply_summary(body, [st], t, site, a0[1], summ, args=[])
        is_poll = any(n.endswith("future::future::Future::poll") or n.endswith("as core::future::future::Future>::poll") for n in names)
        coro = a0[1] if (a0 and a0[0] == "corofut") else None
        if is_poll and coro is None:
            for n in names:
                cb = self.prog.get(n)
                if cb is not None and cb.d.get("coroutine") and n != body.nkey:
                    coro = n
        if is_poll and coro is not None:
            summ = self.summary(coro)
            if summ is not None:
                res = []
                # Pending: nothing happened yet (the callee re-polls)
                res.append(setdst(st.copy(), ("c_poll", 1, None)))
                for ns in self.apply_summary(body, [st], t, site, coro, summ, args=[]):
                    r = ns.vals.get(t["dst"]["l"]) if not t["dst"].get("p") else None
                    ns.vals[t["dst"]["l"]] = ("c_poll", 0, r)
                    res.append(ns)
                return res
        # Result / Option combinators on event values
        if a0 and a0[0] == "disc":
            name, dv = a0[1], a0[2]
            is_res = any(n.startswith("core::result::Result::") for n in names)
            is_opt = any(n.startswith("core::option::Option::") for n in names)
            meth = None
            for n in names:
                if n.startswith("core::result::Result::") or n.startswith("core::option::Option::"):
                    meth = n.rsplit("::", 1)[1]
            if meth in ("is_ok", "is_some"):
                return [setdst(st.copy(), ("b", name, True))]
            if meth in ("is_err", "is_none"):
                return [setdst(st.copy(), ("b", name, False))]
            if meth in ("unwrap", "expect"):
                if st.facts.get(name) is False:
                    return []
                ns = st.copy()
                ns.facts[name] = True
                return [setdst(ns, None)]
            if meth in ("unwrap_err", "expect_err"):
                if st.facts.get(name) is True:
                    return []
                ns = st.copy()
                ns.facts[name] = False
                return [setdst(ns, None)]
            if meth in ("map_err", "map", "inspect_err", "inspect", "or_else", "as_ref", "as_mut", "copied", "cloned"):
                return [setdst(st.copy(), ("disc", name, dv))]
            if meth == "ok" and is_res:
                return [setdst(st.copy(), ("disc", name, 1))]       # Option: Some(=1) iff ok
            if meth in ("ok_or", "ok_or_else") and is_opt:
                return [setdst(st.copy(), ("disc", name, 0))]
            if meth == "err" and is_res:
                ns = st.copy()
                return [setdst(ns, ("ndisc", name))]
            if any(n.endswith("try_trait::Try::branch") or n.endswith("as core::ops::try_trait::Try>::branch") for n in names):
                return [setdst(st.copy(), ("disc", name, 0))]       # Continue(=0) iff ok/some
            if meth in ("unwrap_or_else", "unwrap_or", "unwrap_or_default"):
                return [setdst(st.copy(), None)]
        if _is_pass(names) and a0 is not None:
            v = self.val_of_operand(body, st, args[0]) if args else None
            if v and v[0] == "ref":
                vv = st.vals.get(v[1])
                if vv and vv[0] in ("sem", "acqfut"):
                    v = vv
            if v and v[0] in ("sem", "acqfut", "enum", "param", "ref"):
                return [setdst(st.copy(), v)]
        # rule-provided hooks
        for n in names:
            if n in self.cfg.queries:
                return [setdst(st.copy(), ("b", self.cfg.queries[n], True))]
            if n in self.cfg.opaque_opt:
                vn = "%s@%d" % (self.cfg.opaque_opt[n], site.bb)
                ns = st.copy()
                ns.facts.pop(vn, None)
                return [setdst(ns, ("disc", vn, 1))]
        # summarised in-repo callees
        for n in sorted(names):
            if self.should_summarise(n):
                summ = self.summary(n)
                if summ is None:
                    ns = st.copy()
                    ns.tags = ns.tags | {"recursion"}
                    return [setdst(ns, None)]
                return self.apply_summary(body, [st], t, site, n, summ, args=args)
        return [setdst(st.copy(), None)]

    def apply_summary(self, body, states, t, site, callee, summ, args, is_drop=False):
        out = []
        dst = t.get("dst")
        for st in states:
            for o in summ:
                # parameter conditions
                ok = True
                ns = st.copy()
                for pidx, variant in o["cond"].items():
                    av = self.val_of_operand(body, st, args[pidx - 1]) if pidx - 1 < len(args) else None
                    if av and av[0] == "ref":
                        l = av[1]
                        av = st.vals.get(l) or (("param", l) if 1 <= l <= body.arg_count else None)
                    if av and av[0] == "enum":
                        a = self.prog.adts.get(av[1])
                        names = [v["name"] for v in a["variants"]] if a else []
                        if av[2] in names and names.index(av[2]) != variant:
                            ok = False
                    elif av and av[0] in ("param", "pderef"):
                        key = ("pdisc", av[1])
                        if key in ns.facts and ns.facts[key] != variant:
                            ok = False
                        ns.facts[key] = variant
                    # unknown argument: keep the outcome (over-approximation)
                if not ok:
                    continue
                for ev in o["effects"]:
                    ev2 = self.subst_effect(body, st, ev, args)
                    if ev2[0] == "acq":
                        # already-resolved acquire: encode status through a fresh decided fact
                        name = "s%d:%d" % (site.bb, len(ns.log))
                        ns.facts[name] = (ev2[4] == "ok")
                        self.log_add(ns, ("acq", name, ev2[1], ev2[2], ev2[3]))
                    else:
                        self.log_add(ns, ev2)
                for k, v in o["facts"].items():
                    if isinstance(k, tuple) and k[0] == "closed":
                        ns.facts[("closed", self.subst_sem(body, st, k[1], args))] = v
                ns.tags = ns.tags | frozenset(o["tags"])
                if not is_drop and dst is not None:
                    if dst.get("p"):
                        ns.vals.pop(dst["l"], None)
                    else:
                        r = o["ret"]
                        if r and r[0] in ("c", "adtv", "enum", "corofut", "acqfut"):
                            ns.vals[dst["l"]] = r
                        elif r and r[0] == "variant":
                            # constant-discriminant Result/Option: encode through a decided fact
                            name = "r%d" % site.bb
                            ns.facts[name] = True
                            ns.vals[dst["l"]] = ("disc", name, r[1])
                        else:
                            ns.vals.pop(dst["l"], None)
                out.append(ns)
        return out

    def subst_sem(self, body, st, sem, args):
        if sem and sem[0] == "param":
            i = sem[1] - 1
            if i < len(args):
                return self.sem_arg(body, st, args[i])
            return ("?",)
        if sem and sem[0] == "field":
            return sem
        return sem

    def subst_amt(self, body, st, amt, args):
        if amt and amt[0] == "param":
            i = amt[1] - 1
            if i < len(args):
                return self.amount(body, st, args[i])
            return ("?",)
        if amt and amt[0] == "upgrade":
            return ("upgrade", self.subst_amt(body, st, amt[1], args), self.subst_amt(body, st, amt[2], args))
        return amt

    def subst_effect(self, body, st, ev, args):
        if ev[0] == "acq":
            return ("acq", self.subst_sem(body, st, ev[1], args), self.subst_amt(body, st, ev[2], args), ev[3], ev[4])
        if ev[0] == "rel":
            return ("rel", self.subst_sem(body, st, ev[1], args), self.subst_amt(body, st, ev[2], args))
        if ev[0] == "close":
            return ("close", self.subst_sem(body, st, ev[1], args))
        return ev


def net_effects(effects):
    """Net permits held per semaphore after a sequence of effects, as {sem: [(+/-, amount)]}
    with matching acquire/release pairs cancelled.  Failed acquires contribute nothing."""
    held = {}
    for ev in effects:
        if ev[0] == "acq" and ev[4] == "ok":
            held.setdefault(ev[1], []).append(("+", ev[2]))
        elif ev[0] == "rel":
            lst = held.setdefault(ev[1], [])
            if ("+", ev[2]) in lst:
                lst.remove(("+", ev[2]))
            else:
                lst.append(("-", ev[2]))
    return {k: v for k, v in held.items() if v}


def fmt_amt(a):
    if a is None:
        return "?"
    if a[0] == "c":
        return str(a[1])
    if a[0] == "param":
        return "arg%d" % a[1]
    if a[0] == "sym":
        return a[1].split("::")[-1]
    if a[0] == "upgrade":
        return "upgrade(%s->%s)" % (fmt_amt(a[1]), fmt_amt(a[2]))
    if a[0] == "expr":
        return "(%s %s %s)" % (fmt_amt(a[2]) if a[2][0] in ("c", "param", "expr") else "?", a[1], fmt_amt(a[3]) if a[3][0] in ("c", "param", "expr") else "?")
    return "?"


def fmt_sem(s):
    if s and s[0] == "field":
        return s[1].split("::")[-1]
    if s and s[0] == "param":
        return "arg%d" % s[1]
    return "?"


def fmt_effects(effects):
    out = []
    for ev in effects:
        if ev[0] == "acq":
            out.append("%s %s.acquire[%s](%s)" % ("+" if ev[4] == "ok" else "x", fmt_sem(ev[1]), ev[3], fmt_amt(ev[2])))
        elif ev[0] == "rel":
            out.append("- %s.release(%s)" % (fmt_sem(ev[1]), fmt_amt(ev[2])))
        elif ev[0] == "close":
            out.append("close %s" % fmt_sem(ev[1]))
    return "; ".join(out) if out else "(none)"
