"""Interval of an integer local established by the branches that dominate a site.

`accepted_interval(prog, body, var_local, site)` walks every SwitchInt that dominates `site`, works out which outgoing edge
leads to `site`, and — when the discriminant is a comparison of (a copy of) `var_local` with a constant, or the result of
`Range::contains` / `RangeInclusive::contains` on a constant range with (a reference to) `var_local` — intersects the
constraint of that edge.  Returns (lo, hi) inclusive, with None for an open end, or None when nothing constrains the local.
Anything it does not understand contributes no constraint (the caller requires bounds, so ignorance fails closed).
"""
from engine.facts import Site, operand_local, norm

CMP = {"Eq", "Ne", "Lt", "Le", "Gt", "Ge"}
FLIP = {"Lt": "Gt", "Le": "Ge", "Gt": "Lt", "Ge": "Le", "Eq": "Eq", "Ne": "Ne"}
NEG = {"Lt": "Ge", "Le": "Gt", "Gt": "Le", "Ge": "Lt", "Eq": "Ne", "Ne": "Eq"}


def _single_def(body, l):
    ds = []
    for s in body.sites():
        st = body.at(s)
        if st.get("k") in ("assign", "call") and st.get("dst") and st["dst"]["l"] == l and not st["dst"].get("p"):
            ds.append((s, st))
    return ds[0] if len(ds) == 1 else None


def const_int(body, op, depth=0):
    if op is None or depth > 8:
        return None
    if op.get("k") == "const":
        ev = op.get("ev")
        return ev if isinstance(ev, int) and not isinstance(ev, bool) else None
    l = operand_local(op)
    if l is None or op["pl"].get("p"):
        return None
    d = _single_def(body, l)
    if d is None or d[1].get("k") != "assign":
        return None
    rv = d[1]["rv"]
    if rv["k"] in ("use", "cast"):
        return const_int(body, rv["ops"][0], depth + 1)
    return None


def root_local(body, op, depth=0, stop=None):
    """The local an operand is a (possibly referenced / re-borrowed / cast) copy of; the walk stops at `stop`."""
    if op is None or op.get("k") not in ("copy", "move") or depth > 10:
        return None
    pl = op["pl"]
    l = pl["l"]
    proj = [p for p in pl.get("p", []) if p != "*"]
    if proj:
        return None
    if l == stop:
        return l
    d = _single_def(body, l)
    if d is None or d[1].get("k") != "assign":
        return l
    rv = d[1]["rv"]
    if rv["k"] in ("use", "cast") and rv["ops"][0].get("k") in ("copy", "move"):
        r = root_local(body, rv["ops"][0], depth + 1, stop)
        return r if r is not None else l
    if rv["k"] == "ref" and not [p for p in rv["pl"].get("p", []) if p != "*"]:
        r = root_local(body, {"k": "copy", "pl": {"l": rv["pl"]["l"]}}, depth + 1, stop)
        return r if r is not None else rv["pl"]["l"]
    return l


def _range_consts(prog, body, op, depth=0):
    """(start, end, inclusive) of a constant Range / RangeInclusive the operand refers to."""
    if op is None or depth > 8:
        return None
    if op.get("k") == "const":
        # a promoted constant: `&(a..b)` is lifted into <fn>::promoted[i]
        pi = op.get("promoted")
        key = None
        if pi is not None:
            key = "%s::promoted[%s]" % (body.nkey, pi)
        elif isinstance(op.get("v"), str) and "::promoted[" in op["v"]:
            key = norm(op["v"])
        pb = prog.get(key) if key else None
        if pb is None:
            return None
        return _range_consts(prog, pb, {"k": "copy", "pl": {"l": 0}}, depth + 1)      # what the promoted body returns
    l = operand_local(op)
    if l is None:
        return None
    d = _single_def(body, l)
    if d is None:
        return None
    st = d[1]
    if st.get("k") == "call":
        names = body.callees_of_call(st, passed=False)
        if any(n.endswith("RangeInclusive::new") or n.endswith("RangeInclusive<usize>::new") or "RangeInclusive" in n and n.endswith("::new") for n in names):
            a, b = const_int(body, st["args"][0]), const_int(body, st["args"][1])
            return (a, b, True) if a is not None and b is not None else None
        return None
    rv = st["rv"]
    r = _range_from_rvalue(prog, body, rv, depth + 1)
    if r is not None:
        return r
    if rv["k"] in ("use", "cast"):
        return _range_consts(prog, body, rv["ops"][0], depth + 1)
    if rv["k"] == "ref":
        return _range_consts(prog, body, {"k": "copy", "pl": {"l": rv["pl"]["l"]}}, depth + 1)
    return None


def _range_from_rvalue(prog, body, rv, depth):
    if rv.get("k") == "aggr" and rv.get("ak") == "adt":
        adt = norm(rv.get("adt", ""))
        if adt in ("core::ops::range::Range", "core::ops::range::RangeInclusive", "core::range::Range", "core::range::RangeInclusive"):
            ops = rv.get("ops", [])
            if len(ops) >= 2:
                a, b = const_int(body, ops[0]), const_int(body, ops[1])
                if a is not None and b is not None:
                    return (a, b, adt.endswith("RangeInclusive"))
    return None


def _pred_of_discr(prog, body, op, var, depth=0):
    """Predicate on `var` a bool operand stands for: ('cmp', op, c) meaning `var <op> c`, or ('in', a, b, incl).  None if unknown.
    Returned together with a negation flag."""
    neg = False
    for _ in range(10):
        l = operand_local(op)
        if l is None or op["pl"].get("p"):
            return None
        d = _single_def(body, l)
        if d is None:
            return None
        st = d[1]
        if st.get("k") == "call":
            names = body.callees_of_call(st, passed=False)
            if any(("ops::range::Range" in n or "range::Range" in n) and n.split("::<")[0].endswith("::contains") or n.endswith("::contains") and "Range" in n for n in names):
                if len(st["args"]) >= 2 and root_local(body, st["args"][1], stop=var) == var:
                    r = _range_consts(prog, body, st["args"][0])
                    if r is not None:
                        return (("in",) + r, neg)
            return None
        rv = st["rv"]
        if rv["k"] == "use" and rv["ops"][0].get("k") in ("copy", "move"):
            op = rv["ops"][0]
            continue
        if rv["k"] == "unop" and rv.get("op") == "Not":
            neg = not neg
            op = rv["ops"][0]
            continue
        if rv["k"] == "binop" and rv.get("op") in CMP:
            a, b = rv["ops"]
            if root_local(body, a, stop=var) == var and const_int(body, b) is not None:
                return (("cmp", rv["op"], const_int(body, b)), neg)
            if root_local(body, b, stop=var) == var and const_int(body, a) is not None:
                return (("cmp", FLIP[rv["op"]], const_int(body, a)), neg)
            return None
        return None
    return None


def _apply(iv, pred, truth):
    lo, hi = iv
    kind = pred[0]
    if kind == "in":
        _, a, b, incl = pred
        top = b if incl else b - 1
        if truth:
            lo = a if lo is None else max(lo, a)
            hi = top if hi is None else min(hi, top)
        # the complement of a range is not an interval: no constraint
        return lo, hi
    _, op, c = pred
    if not truth:
        op = NEG[op]
    if op == "Lt":
        hi = c - 1 if hi is None else min(hi, c - 1)
    elif op == "Le":
        hi = c if hi is None else min(hi, c)
    elif op == "Gt":
        lo = c + 1 if lo is None else max(lo, c + 1)
    elif op == "Ge":
        lo = c if lo is None else max(lo, c)
    elif op == "Eq":
        lo = c if lo is None else max(lo, c)
        hi = c if hi is None else min(hi, c)
    elif op == "Ne":
        # v != c sharpens a bound only at the edge of the interval (v is unsigned: v != 0 means v >= 1)
        if c == 0 and (lo is None or lo <= 0):
            lo = 1
        elif lo is not None and c == lo:
            lo = lo + 1
        elif hi is not None and c == hi:
            hi = hi - 1
    return lo, hi


def accepted_interval(prog, body, var, site, unsigned=True):
    iv = (0 if unsigned else None, None)
    found = False
    for bb in range(len(body.blocks)):
        t = body.term(bb)
        if t.get("k") != "switch" or body.blocks[bb].get("cleanup"):
            continue
        sw = body.term_site(bb)
        if not body.site_dominates(sw, site):
            continue
        r = _pred_of_discr(prog, body, t["discr"], var)
        if r is None:
            continue
        pred, neg = r
        arms = dict((a[0], a[1]) for a in t["arms"])
        false_bb = arms.get(0, t["otherwise"])
        true_bb = arms.get(1, t["otherwise"])
        reach_t = body.path_exists(Site(true_bb, 0), lambda x: x == site, start_inclusive=True) is not None
        reach_f = body.path_exists(Site(false_bb, 0), lambda x: x == site, start_inclusive=True) is not None
        if reach_t == reach_f:
            continue
        truth = reach_t
        if neg:
            truth = not truth
        iv = _apply(iv, pred, truth)
        found = True
    return iv if found else None
