"""Program model built from the MIR facts written by engine/driver.

No property is decided here.  This module offers:
  * Program: bodies / adts / items / impls indexed by normalised keys
  * per-body CFG over normal (non-unwind) edges, site-level path queries
  * call graph with closure-argument and drop edges, may_reach / must_call summaries
  * a small intra-procedural backward slice
"""
import glob
import json
import os
import re
from collections import defaultdict, deque

TRACING_MACROS = {"trace", "debug", "info", "warn", "error", "event", "$crate::event",
                  "tracing::trace", "tracing::debug", "tracing::info", "tracing::warn",
                  "tracing::error", "span", "trace_span", "debug_span", "info_span",
                  "$crate::span", "error_span", "warn_span"}


def norm(key):
    """Strip generic argument lists from a def path string.

    `a::B::<T>::c` -> `a::B::c`; `<a::B<'_, T> as t::U<X>>::m` -> `<a::B as t::U>::m`.
    A `<` opens generic args iff it follows an identifier character or `::`.
    """
    out = []
    i = 0
    n = len(key)
    while i < n:
        c = key[i]
        if c == '<':
            prev = out[-1] if out else ''
            is_generic = prev.isalnum() or prev == '_' or (len(out) >= 2 and out[-1] == ':' and out[-2] == ':')
            if is_generic:
                # skip balanced <...>
                depth = 0
                j = i
                while j < n:
                    if key[j] == '<':
                        depth += 1
                    elif key[j] == '>' and not (j > 0 and key[j - 1] == '-'):
                        depth -= 1
                        if depth == 0:
                            break
                    j += 1
                # remove a trailing '::' before the generic list (turbofish form)
                if len(out) >= 2 and out[-1] == ':' and out[-2] == ':':
                    out.pop()
                    out.pop()
                i = j + 1
                continue
        out.append(c)
        i += 1
    return ''.join(out)


class Site:
    """(block id, index) ; index == len(stmts) means the terminator."""
    __slots__ = ("bb", "idx")

    def __init__(self, bb, idx):
        self.bb = bb
        self.idx = idx

    def __eq__(self, o):
        return self.bb == o.bb and self.idx == o.idx

    def __hash__(self):
        return hash((self.bb, self.idx))

    def __repr__(self):
        return "bb%d[%d]" % (self.bb, self.idx)

    def __lt__(self, o):
        return (self.bb, self.idx) < (o.bb, o.idx)


def place_str(pl):
    if pl is None:
        return "?"
    s = "_%d" % pl["l"]
    for p in pl.get("p", []):
        s += "." + p
    return s


def place_fields(pl):
    """Field names ('Adt.field') mentioned in a place's projection."""
    return [p[2:] for p in pl.get("p", []) if p.startswith("F:")]


def operand_local(op):
    if op and op.get("k") in ("copy", "move"):
        return op["pl"]["l"]
    return None


class Body:
    def __init__(self, prog, crate, d):
        self.prog = prog
        self.crate = crate
        self.d = d
        self.key = d["key"]
        self.nkey = norm(d["key"])
        self.kind = d["kind"]
        self.file = d.get("file", "?")
        self.line = d.get("line", 0)
        self.blocks = d["blocks"]
        self.locals = d["locals"]
        self.parent = norm(d["parent"]) if "parent" in d else None
        self.arg_count = d.get("arg_count", 0)
        self.mac = d.get("mac", [])
        self._succ = None
        self._pred = None
        self._dom = None
        self._closure_defs = None
        self._fn_consts = None

    # ---- basic structure -------------------------------------------------
    def nsites(self, bb):
        return len(self.blocks[bb]["stmts"]) + 1

    def term(self, bb):
        return self.blocks[bb]["term"]

    def term_site(self, bb):
        return Site(bb, len(self.blocks[bb]["stmts"]))

    def at(self, site):
        b = self.blocks[site.bb]
        if site.idx < len(b["stmts"]):
            return b["stmts"][site.idx]
        return b["term"]

    def is_term(self, site):
        return site.idx == len(self.blocks[site.bb]["stmts"])

    def line_of(self, site):
        return self.at(site).get("line", 0)

    def loc(self, site=None):
        if site is None:
            return "%s:%d" % (self.file, self.line)
        return "%s:%d" % (self.file, self.line_of(site))

    def local_ty(self, l):
        return self.locals[l]["ty"]

    def local_name(self, l):
        return self.locals[l].get("name")

    def locals_named(self, name):
        return [i for i, l in enumerate(self.locals) if l.get("name") == name]

    @property
    def succ(self):
        if self._succ is None:
            s = []
            for b in self.blocks:
                t = b["term"]
                k = t["k"]
                if b.get("cleanup"):
                    s.append([])
                    continue
                if k == "goto":
                    s.append([t["target"]])
                elif k == "switch":
                    tg = [a[1] for a in t["arms"]] + [t["otherwise"]]
                    s.append(list(dict.fromkeys(tg)))
                elif k in ("call", "drop", "assert", "yield"):
                    s.append([t["target"]] if t.get("target") is not None else [])
                else:
                    s.append([])
            self._succ = s
        return self._succ

    @property
    def pred(self):
        if self._pred is None:
            p = [[] for _ in self.blocks]
            for i, ss in enumerate(self.succ):
                for x in ss:
                    p[x].append(i)
            self._pred = p
        return self._pred

    @property
    def whole_defs(self):
        """local -> [assign statements whose destination is the whole local] (cached)."""
        d = getattr(self, "_whole_defs", None)
        if d is None:
            d = defaultdict(list)
            for s, st in self.assigns():
                if not st["dst"].get("p"):
                    d[st["dst"]["l"]].append(st)
            self._whole_defs = d
        return d

    def reachable_blocks(self, start=0):
        if start == 0 and getattr(self, "_reach0", None) is not None:
            return self._reach0
        r = self._reachable_blocks(start)
        if start == 0:
            self._reach0 = r
        return r

    def _reachable_blocks(self, start=0):
        seen = {start}
        dq = deque([start])
        while dq:
            b = dq.popleft()
            for s in self.succ[b]:
                if s not in seen:
                    seen.add(s)
                    dq.append(s)
        return seen

    # ---- dominators --------------------------------------------------------
    @property
    def dom(self):
        """dom[b] = set of blocks dominating b (including b) for reachable blocks."""
        if self._dom is None:
            reach = self.reachable_blocks()
            order = sorted(reach)
            dom = {b: set(order) for b in order}
            dom[0] = {0}
            changed = True
            while changed:
                changed = False
                for b in order:
                    if b == 0:
                        continue
                    ps = [p for p in self.pred[b] if p in reach]
                    if not ps:
                        continue
                    new = set.intersection(*[dom[p] for p in ps]) | {b}
                    if new != dom[b]:
                        dom[b] = new
                        changed = True
            self._dom = dom
        return self._dom

    def site_dominates(self, a, b):
        if a.bb == b.bb:
            return a.idx <= b.idx
        return b.bb in self.dom and a.bb in self.dom[b.bb]

    # ---- iteration helpers ---------------------------------------------------
    def sites(self, include_cleanup=False):
        reach = self.reachable_blocks()
        for b in self.blocks:
            if b["id"] not in reach:
                continue
            if b.get("cleanup") and not include_cleanup:
                continue
            for i in range(len(b["stmts"]) + 1):
                yield Site(b["id"], i)

    def calls(self):
        """yield (site, term) for call terminators on normal paths."""
        reach = self.reachable_blocks()
        for b in self.blocks:
            if b["id"] not in reach or b.get("cleanup"):
                continue
            t = b["term"]
            if t["k"] == "call":
                yield self.term_site(b["id"]), t

    def drops(self):
        reach = self.reachable_blocks()
        for b in self.blocks:
            if b["id"] not in reach or b.get("cleanup"):
                continue
            t = b["term"]
            if t["k"] == "drop":
                yield self.term_site(b["id"]), t

    def assigns(self):
        for s in self.sites():
            st = self.at(s)
            if st.get("k") == "assign":
                yield s, st

    def returns(self):
        reach = self.reachable_blocks()
        return [self.term_site(b["id"]) for b in self.blocks
                if b["id"] in reach and not b.get("cleanup") and b["term"]["k"] == "return"]

    def in_tracing(self, site):
        st = self.at(site)
        mac = st.get("mac") or []
        return any(m in TRACING_MACROS for m in mac)

    def macros_at(self, site):
        return self.at(site).get("mac") or []

    # ---- closures / fn items assigned to locals ------------------------------------
    @property
    def closure_defs(self):
        """local -> set of closure def keys aggregated into it (anywhere in the body)."""
        if self._closure_defs is None:
            m = defaultdict(set)
            for s, st in self.assigns():
                rv = st["rv"]
                if rv["k"] == "aggr" and rv.get("ak") in ("closure", "coroutine", "coroutine_closure"):
                    if not st["dst"].get("p"):
                        m[st["dst"]["l"]].add(norm(rv["def"]))
            # propagate through plain moves/copies/refs of whole locals (one pass to fixpoint)
            changed = True
            while changed:
                changed = False
                for s, st in self.assigns():
                    rv = st["rv"]
                    if st["dst"].get("p"):
                        continue
                    src = None
                    if rv["k"] == "use":
                        src = operand_local(rv["ops"][0])
                        if src is not None and rv["ops"][0]["pl"].get("p"):
                            src = None
                    elif rv["k"] == "ref" and not rv["pl"].get("p"):
                        src = rv["pl"]["l"]
                    elif rv["k"] == "cast":
                        src = operand_local(rv["ops"][0])
                    elif rv["k"] == "aggr" and rv.get("ak") in ("adt", "tuple"):
                        # wrapper structs such as AssertUnwindSafe(closure) / Box-like newtypes
                        for o in rv.get("ops", []):
                            l = operand_local(o)
                            if l is not None and m.get(l):
                                d = st["dst"]["l"]
                                before = len(m[d])
                                m[d] |= m[l]
                                if len(m[d]) != before:
                                    changed = True
                    if src is not None and m.get(src):
                        d = st["dst"]["l"]
                        before = len(m[d])
                        m[d] |= m[src]
                        if len(m[d]) != before:
                            changed = True
            self._closure_defs = m
        return self._closure_defs

    def callees_of_call(self, t, passed=True):
        """Normalised callee keys a call terminator may invoke.

        The resolved callee (or the declared one), plus – when `passed` – every closure /
        fn item handed over as an argument (assumed to be invoked by the callee)."""
        out = set()
        if t.get("res"):
            out.add(norm(t["res"]))
        if t.get("callee") and t["callee"] != "<indirect>":
            out.add(norm(t["callee"]))
        if t.get("callee") == "<indirect>":
            f = t.get("func")
            l = operand_local(f) if f else None
            if l is not None:
                out |= self.closure_defs.get(l, set())
        if passed:
            out |= self.passed_callables(t)
        return out

    def passed_callables(self, t):
        out = set()
        for a in t.get("args", []):
            if a.get("k") == "const":
                if a.get("closure"):
                    out.add(norm(a["closure"]))
                if a.get("fn"):
                    out.add(norm(a.get("res") or a["fn"]))
            else:
                l = operand_local(a)
                if l is not None:
                    out |= self.closure_defs.get(l, set())
        return out

    def drop_callees(self, t):
        out = set()
        for i in t.get("impls", []):
            if i.startswith("param:") or i.startswith("dyn:") or i.startswith("alias:"):
                continue
            if i.startswith("coroutine:"):
                continue
            out.add(norm(i))
        return out

    # ---- path queries --------------------------------------------------------------
    def path_exists(self, start, is_target, is_avoid=None, start_inclusive=False, edge_ok=None):
        """Is there a normal path from `start` (Site or None=entry) to a site satisfying
        is_target(site), passing through no site with is_avoid(site)?  The start site itself
        is not tested unless start_inclusive.  A target is recognised before avoidance is
        tested at the same site.  Returns the witness target site or None."""
        if start is None:
            start = Site(0, 0)
            start_inclusive = True
        seen = set()
        dq = deque()
        dq.append((start.bb, start.idx if start_inclusive else start.idx + 1))
        while dq:
            bb, idx = dq.popleft()
            n = self.nsites(bb)
            blocked = False
            for i in range(idx, n):
                s = Site(bb, i)
                if is_target(s):
                    return s
                if is_avoid is not None and is_avoid(s):
                    blocked = True
                    break
            if blocked:
                continue
            for nx in self.succ[bb]:
                if edge_ok is not None and not edge_ok(bb, nx):
                    continue
                if nx not in seen:
                    seen.add(nx)
                    dq.append((nx, 0))
        return None

    def reach_sites(self, start, is_avoid=None, start_inclusive=False):
        """All sites reachable from start avoiding is_avoid sites (avoid sites themselves
        are included as reached, but not passed)."""
        if start is None:
            start = Site(0, 0)
            start_inclusive = True
        out = set()
        seen = set()
        dq = deque()
        dq.append((start.bb, start.idx if start_inclusive else start.idx + 1))
        while dq:
            bb, idx = dq.popleft()
            n = self.nsites(bb)
            blocked = False
            for i in range(idx, n):
                s = Site(bb, i)
                out.add(s)
                if is_avoid is not None and is_avoid(s):
                    blocked = True
                    break
            if blocked:
                continue
            for nx in self.succ[bb]:
                if nx not in seen:
                    seen.add(nx)
                    dq.append((nx, 0))
        return out

    def is_return(self, site):
        return self.is_term(site) and self.term(site.bb)["k"] == "return"

    # ---- uses / defs of locals --------------------------------------------------------
    def operands_of(self, st):
        """All operand dicts appearing in a statement/terminator."""
        k = st.get("k")
        ops = []
        if k == "assign":
            rv = st["rv"]
            ops += rv.get("ops", [])
        elif k == "call":
            ops += st.get("args", [])
            if st.get("func"):
                ops.append(st["func"])
        elif k == "switch":
            ops.append(st["discr"])
        elif k == "assert":
            ops.append(st["cond"])
        elif k == "yield":
            ops.append(st["value"])
        return ops

    def places_read(self, st):
        out = []
        for op in self.operands_of(st):
            if op.get("k") in ("copy", "move"):
                out.append(op["pl"])
        if st.get("k") == "assign":
            rv = st["rv"]
            if "pl" in rv:
                out.append(rv["pl"])
        return out


class Program:
    def __init__(self, facts_dir, crates=None):
        self.bodies = {}          # raw key -> Body
        self.by_norm = defaultdict(list)
        self.adts = {}
        self.items = {}
        self.impls = []
        self.fns = {}
        self.crates = {}
        self.meta = {}
        seen_crates = set()
        for f in sorted(glob.glob(os.path.join(facts_dir, "*.json"))):
            if os.path.basename(f).startswith("_"):
                continue
            with open(f) as fh:
                d = json.load(fh)
            cname = d["crate"]
            if crates is not None and cname not in crates:
                continue
            ident = (cname, tuple(d["meta"]["features"]), d["meta"]["is_test"])
            if cname in seen_crates:
                # host/target duplicates of the same crate+features: identical facts
                continue
            seen_crates.add(cname)
            self.meta[cname] = d["meta"]
            self.crates[cname] = {"bodies": len(d["bodies"]), "adts": len(d["adts"]),
                                  "items": len(d["items"]), "impls": len(d["impls"]),
                                  "features": d["meta"]["features"]}
            for a in d["adts"]:
                a["crate"] = cname
                self.adts[norm(a["key"])] = a
            for it in d["items"]:
                it["crate"] = cname
                self.items[norm(it["key"])] = it
            for im in d["impls"]:
                im["crate"] = cname
                self.impls.append(im)
            for fn in d["fns"]:
                fn["crate"] = cname
                self.fns[norm(fn["key"])] = fn
            for b in d["bodies"]:
                body = Body(self, cname, b)
                self.bodies[body.key] = body
                self.by_norm[body.nkey].append(body)
        self._callgraph = None
        self._children = None

    def const_items(self, op):
        """Item paths named by a constant operand, looking through promoted constants
        (`&SOME_THREAD_LOCAL` is a promoted whose body mentions the item)."""
        out = set()
        if op.get("k") != "const" or not op.get("item"):
            return out
        if op.get("promoted") is not None:
            pb = self.get("%s::promoted[%d]" % (norm(op["item"]), op["promoted"]))
            if pb is not None:
                for s in pb.sites():
                    for o in pb.operands_of(pb.at(s)):
                        if o.get("k") == "const" and o.get("item") and o.get("promoted") is None:
                            out.add(norm(o["item"]))
        else:
            out.add(norm(op["item"]))
        return out

    # ---- lookup ------------------------------------------------------------------
    def get(self, nkey):
        """Unique body with this normalised key, or None."""
        l = self.by_norm.get(nkey, [])
        if len(l) == 1:
            return l[0]
        return None

    def find(self, pattern):
        """Bodies whose normalised key matches the regex (search)."""
        r = re.compile(pattern)
        return [b for k, bs in self.by_norm.items() if r.search(k) for b in bs]

    def all_bodies(self, crates=None):
        for bs in self.by_norm.values():
            for b in bs:
                if crates is None or b.crate in crates:
                    yield b

    @property
    def children(self):
        """fn key -> closure bodies lexically inside it (transitively via parent)."""
        if self._children is None:
            c = defaultdict(list)
            for b in self.all_bodies():
                if b.parent:
                    c[b.parent].append(b)
            self._children = c
        return self._children

    def with_closures(self, body):
        """body plus every closure body nested in it."""
        root = body.parent or body.nkey
        out = [body]
        for c in self.children.get(body.nkey, []):
            if c is not body:
                out.append(c)
        return out

    # ---- call graph -------------------------------------------------------------------
    @property
    def callgraph(self):
        """nkey -> set of nkeys that may be invoked (calls, passed closures, drop impls)."""
        if self._callgraph is None:
            g = defaultdict(set)
            for b in self.all_bodies():
                tgt = g[b.nkey]
                for s, t in b.calls():
                    tgt |= b.callees_of_call(t)
                for s, t in b.drops():
                    tgt |= b.drop_callees(t)
            self._callgraph = g
        return self._callgraph

    def may_reach(self, roots, pred=None, stop=None):
        """Set of nkeys reachable from roots through the call graph (roots included).
        `stop(nkey)` prunes expansion below a node."""
        seen = set()
        dq = deque(roots)
        while dq:
            k = dq.popleft()
            if k in seen:
                continue
            seen.add(k)
            if stop is not None and stop(k):
                continue
            for c in self.callgraph.get(k, ()):
                if c not in seen:
                    dq.append(c)
        if pred is not None:
            return {k for k in seen if pred(k)}
        return seen

    def reaches(self, root, targets):
        targets = set(targets)
        return bool(self.may_reach([root]) & targets)

    def callers_of(self, nkey, passed=True):
        """[(body, site, term)] of call terminators that may invoke nkey."""
        out = []
        for b in self.all_bodies():
            for s, t in b.calls():
                if nkey in b.callees_of_call(t, passed=passed):
                    out.append((b, s, t))
        return out

    # ---- must-call summaries -------------------------------------------------------------
    def must_call(self, targets, invoke_closure_callees=None, include_drops=True):
        """Least fixed point: set M of nkeys such that every normal entry->return path of the
        function passes through a site that calls a key in targets ∪ M.

        Closures handed to a callee count as invoked only when the callee (normalised)
        is in invoke_closure_callees (functions known to call their closure argument
        exactly once on every path)."""
        targets = set(targets)
        icc = set(invoke_closure_callees or ())
        M = set()
        # only functions from which a target is reachable at all can must-call it
        if not hasattr(self, "_rev"):
            rev = defaultdict(set)
            for k, cs in self.callgraph.items():
                for c in cs:
                    rev[c].add(k)
            self._rev = rev
        cand = set()
        dq = deque(targets)
        while dq:
            k = dq.popleft()
            if k in cand:
                continue
            cand.add(k)
            for pk in self._rev.get(k, ()):
                if pk not in cand:
                    dq.append(pk)
        bodies = [b for b in self.all_bodies() if b.nkey in cand]

        def site_hits(b, s, goal):
            if not b.is_term(s):
                return False
            t = b.term(s.bb)
            if t["k"] == "call":
                direct = b.callees_of_call(t, passed=False)
                if direct & goal:
                    return True
                if direct & icc:
                    if b.passed_callables(t) & goal:
                        return True
                return False
            if t["k"] == "drop" and include_drops:
                return bool(b.drop_callees(t) & goal)
            return False

        changed = True
        while changed:
            changed = False
            goal = targets | M
            for b in bodies:
                if b.nkey in M:
                    continue
                if len(self.by_norm[b.nkey]) != 1:
                    continue
                rets = b.returns()
                if not rets:
                    continue
                w = b.path_exists(None, b.is_return, lambda s, b=b, goal=goal: site_hits(b, s, goal))
                if w is None:
                    M.add(b.nkey)
                    changed = True
        return M

    def site_calls(self, b, s, goal, icc=(), include_drops=True):
        """Does site s of body b invoke (directly / via drop / via an invoked closure) a key in goal?"""
        if not b.is_term(s):
            return False
        t = b.term(s.bb)
        if t["k"] == "call":
            direct = b.callees_of_call(t, passed=False)
            if direct & goal:
                return True
            if icc and (direct & set(icc)) and (b.passed_callables(t) & goal):
                return True
            return False
        if t["k"] == "drop" and include_drops:
            return bool(b.drop_callees(t) & goal)
        return False

    # ---- writers of a field ---------------------------------------------------------------
    def field_writes(self, field, crates=None):
        """Sites that assign to (or take &mut of) a place whose LAST field projection is `field`
        ('Adt.field', Adt normalised path).  Returns [(body, site, kind)] kind in
        {'assign','refmut','call_dst'}."""
        out = []
        tag = "F:" + field
        for b in self.all_bodies(crates):
            for s in b.sites():
                st = b.at(s)
                k = st.get("k")
                if k == "assign":
                    if _last_field(st["dst"]) == tag:
                        out.append((b, s, "assign"))
                    rv = st["rv"]
                    if rv["k"] == "ref" and rv.get("bk") == "mut" and _last_field(rv["pl"]) == tag:
                        out.append((b, s, "refmut"))
                    if rv["k"] == "rawptr" and "Mut" in rv.get("bk", "") and _last_field(rv["pl"]) == tag:
                        out.append((b, s, "refmut"))
                elif k == "call":
                    if _last_field(st["dst"]) == tag:
                        out.append((b, s, "call_dst"))
        return out

    def field_reads(self, field, crates=None):
        out = []
        tag = "F:" + field
        for b in self.all_bodies(crates):
            for s in b.sites():
                st = b.at(s)
                for pl in b.places_read(st):
                    if tag in [norm_field(p) for p in pl.get("p", [])]:
                        out.append((b, s))
                        break
        return out

    def adt_constructions(self, adt, variant=None, crates=None):
        out = []
        for b in self.all_bodies(crates):
            for s, st in b.assigns():
                rv = st["rv"]
                if rv["k"] == "aggr" and rv.get("ak") == "adt" and norm(rv["adt"]) == adt:
                    if variant is None or rv.get("variant") == variant:
                        out.append((b, s, st))
        return out


def norm_field(p):
    if p.startswith("F:"):
        return "F:" + norm(p[2:])
    return p


def _last_field(pl):
    ps = pl.get("p", [])
    for p in reversed(ps):
        if p.startswith("F:"):
            return norm_field(p)
        if p == "*" or p.startswith("D:") or p.startswith("D#"):
            continue
        return None
    return None


def last_field(pl):
    t = _last_field(pl)
    return t[2:] if t else None


# ---- backward slice -------------------------------------------------------------------------
class Slicer:
    """Flow-insensitive backward data slice over the locals of one body.

    labels collected: 'call:<nkey>' for results of calls (resolved and declared names, and the
    callables handed to them), 'field:<Adt.field>' for field reads, 'const:<v>' for constants,
    'arg:<n>' for parameters."""

    def __init__(self, body, alias_defs=True, control=False):
        self.b = body
        self.alias_defs = alias_defs
        self.control = control      # also follow the branch conditions that control each definition
        self._cd = None
        self.defs = defaultdict(list)   # local -> [(site, stmt)]
        self.alias = defaultdict(set)   # temp local holding &mut X  -> X
        b = body
        for s in b.sites():
            st = b.at(s)
            k = st.get("k")
            if k == "assign":
                self.defs[st["dst"]["l"]].append((s, st))
                rv = st["rv"]
                if rv["k"] in ("ref", "rawptr") and rv.get("bk") in ("mut", "Mut"):
                    if not st["dst"].get("p"):
                        self.alias[st["dst"]["l"]].add(rv["pl"]["l"])
            elif k == "call":
                self.defs[st["dst"]["l"]].append((s, st))
        # propagate alias through moves
        changed = True
        while changed:
            changed = False
            for l, ds in list(self.defs.items()):
                for s, st in ds:
                    if st.get("k") == "assign" and st["rv"]["k"] in ("use", "cast") and not st["dst"].get("p"):
                        src = operand_local(st["rv"]["ops"][0])
                        if src is not None and self.alias.get(src):
                            before = len(self.alias[l])
                            self.alias[l] |= self.alias[src]
                            if len(self.alias[l]) != before:
                                changed = True
        # calls taking &mut X are defs of X
        for s, t in (b.calls() if alias_defs else ()):
            for a in t.get("args", []):
                l = operand_local(a)
                if l is not None:
                    for x in self.alias.get(l, ()):
                        self.defs[x].append((s, t))

    def labels_of_stmt(self, st):
        b = self.b
        labels = set()
        locs = set()
        k = st.get("k")
        if k == "assign":
            rv = st["rv"]
            for op in rv.get("ops", []):
                self._op(op, labels, locs)
            if "pl" in rv:
                self._pl(rv["pl"], labels, locs)
            if rv["k"] == "aggr" and rv.get("ak") in ("closure", "coroutine"):
                labels.add("closure:" + norm(rv["def"]))
        elif k == "call":
            for c in b.callees_of_call(st):
                labels.add("call:" + c)
            for a in st.get("args", []):
                self._op(a, labels, locs)
            if st.get("func"):
                self._op(st["func"], labels, locs)
        return labels, locs

    def _op(self, op, labels, locs):
        if op.get("k") in ("copy", "move"):
            self._pl(op["pl"], labels, locs)
        elif op.get("k") == "const":
            if "ev" in op:
                labels.add("const:%s" % op["ev"])
            for it in self.b.prog.const_items(op):
                labels.add("item:" + it)

    def _pl(self, pl, labels, locs):
        locs.add(pl["l"])
        for p in pl.get("p", []):
            if p.startswith("F:"):
                labels.add("field:" + norm(p[2:]))
            elif p.startswith("I:_"):
                locs.add(int(p[3:]))

    def slice_locals(self, roots):
        labels = set()
        seen = set()
        self.sites = set()
        dq = deque(roots)
        while dq:
            l = dq.popleft()
            if l in seen:
                continue
            seen.add(l)
            if 1 <= l <= self.b.arg_count:
                labels.add("arg:%d" % l)
            for s, st in self.defs.get(l, []):
                self.sites.add(s)
                lb, lc = self.labels_of_stmt(st)
                labels |= lb
                for x in lc:
                    if x not in seen:
                        dq.append(x)
                if self.control:
                    if self._cd is None:
                        self._cd = control_deps(self.b)
                    for sw in self._cd.get(s.bb, ()):
                        t = self.b.term(sw)
                        if t["k"] == "switch":
                            lb2, lc2 = set(), set()
                            self._op(t["discr"], lb2, lc2)
                            labels |= lb2
                            for x in lc2:
                                if x not in seen:
                                    dq.append(x)
        return labels, seen

    def slice_operand(self, op):
        labels, locs = set(), set()
        self._op(op, labels, locs)
        l2, seen = self.slice_locals(list(locs))
        return labels | l2, seen


def control_deps(body):
    """block -> set of switch blocks it is control dependent on (normal CFG, virtual exit)."""
    n = len(body.blocks)
    reach = body.reachable_blocks()
    EXIT = n
    succ = {b: list(body.succ[b]) for b in reach}
    for b in reach:
        if not succ[b]:
            succ[b] = [EXIT]
    succ[EXIT] = []
    nodes = sorted(reach) + [EXIT]
    pred = defaultdict(list)
    for b in nodes:
        for s in succ[b]:
            pred[s].append(b)
    # post-dominators
    pdom = {b: set(nodes) for b in nodes}
    pdom[EXIT] = {EXIT}
    changed = True
    while changed:
        changed = False
        for b in nodes:
            if b == EXIT:
                continue
            ss = succ[b]
            new = set.intersection(*[pdom[s] for s in ss]) | {b} if ss else {b}
            if new != pdom[b]:
                pdom[b] = new
                changed = True
    cd = defaultdict(set)
    for a in nodes:
        if a == EXIT or len(succ[a]) < 2:
            continue
        for s in succ[a]:
            # nodes that postdominate s but do not strictly postdominate a
            for x in pdom[s]:
                if x == EXIT:
                    continue
                if x == a or x not in pdom[a]:
                    cd[x].add(a)
    # transitive closure
    changed = True
    while changed:
        changed = False
        for x in list(cd):
            add = set()
            for a in cd[x]:
                add |= cd.get(a, set())
            if not add <= cd[x]:
                cd[x] |= add
                changed = True
    return cd
