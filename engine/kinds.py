"""Reusable rule kinds (K1..K11 of DESIGN.md) built on engine.facts primitives."""
import re
from collections import deque

from .facts import Site, Slicer, norm, operand_local, last_field

PANIC_RE = re.compile(
    r"^(core::panicking::|std::panicking::|core::option::unwrap_failed|core::option::expect_failed|"
    r"core::result::unwrap_failed|core::slice::index::slice_.*_fail|core::str::slice_error_fail|"
    r"alloc::raw_vec::capacity_overflow|alloc::alloc::handle_alloc_error|std::process::abort|std::process::exit|"
    r"std::rt::begin_panic|core::panic::|core::intrinsics::abort|std::rt::panic)")

DENY_RE = re.compile(
    r"^(core::option::Option::(unwrap|expect)$|core::result::Result::(unwrap|expect|unwrap_err|expect_err)$|"
    r"core::ops::index::Index::index$|core::ops::index::IndexMut::index_mut$|"
    r"<.* as core::ops::index::Index>::index$|<.* as core::ops::index::IndexMut>::index_mut$|"
    r"bitvec::slice::ops::index|bitvec::slice::ops::index_mut|"
    r"core::slice::(split_at|split_at_mut|copy_from_slice|clone_from_slice|swap|chunks|windows)$|"
    r"alloc::vec::Vec::(remove|swap_remove|insert|drain|split_off|truncate_front)$|"
    r"alloc::collections::vec_deque::VecDeque::(swap|range)$|"
    r"bitvec::slice::BitSlice::(from_slice|from_slice_mut|from_element)$|"
    r"core::cell::RefCell::(borrow|borrow_mut)$|"
    r"alloc::string::String::(remove|insert|split_off|drain)$)")

ALLOW_RE = re.compile(
    r"^(hex::decode|core::str::chars|core::char::methods::is_whitespace|"
    r"core::iter::traits::iterator::Iterator::(filter|collect|map|next|enumerate|zip|rev|take|skip|count|max|min)|"
    r"<.* as core::iter::traits::iterator::Iterator>::|core::iter::traits::collect::IntoIterator::into_iter|"
    r"<.* as core::iter::traits::collect::IntoIterator>::into_iter|"
    r"core::result::Result::(ok|is_ok|is_err|map|map_err|and_then|or_else|err)$|"
    r"core::option::Option::(map|and_then|ok_or|ok_or_else|is_some|is_none|or|or_else|copied|cloned|as_ref|as_mut|take|filter|unwrap_or|unwrap_or_else|unwrap_or_default)$|"
    r"<core::option::Option as core::ops::try_trait::(Try|FromResidual)>::|<core::result::Result as core::ops::try_trait::(Try|FromResidual)>::|"
    r"core::ops::try_trait::(Try::branch|FromResidual::from_residual)|"
    r"alloc::vec::Vec::(new|push|len|is_empty|as_slice|pop|clear|first|last|get|iter)$|<alloc::vec::Vec as core::ops::drop::Drop>::drop|"
    r"<alloc::vec::Vec as core::ops::deref::Deref>::deref|core::ops::deref::Deref::deref|"
    r"core::slice::(first|last|get|len|is_empty|split_first|split_last|iter|get_mut)$|"
    r"bitvec::slice::BitSlice::(try_from_slice|len|is_empty)$|bitvec::slice::api::(get|len|first|last)$|"
    r"<bitvec::ptr::proxy::BitRef as core::ops::(deref::Deref|drop::Drop)>::|"
    r"core::num::(checked_|wrapping_|saturating_|overflowing_|leading_zeros|trailing_zeros|count_ones)|"
    r"core::convert::num::|core::convert::(From::from|Into::into|TryFrom::try_from|TryInto::try_into)$|<.* as core::convert::(From|Into|TryFrom|TryInto)>::|"
    r"std::io::Read::read_exact|std::io::error::Error::(other|new)|<.* as std::io::Read>::read_exact|"
    r"core::mem::(drop|replace|take|swap|size_of|size_of_val)|core::cmp::|<.* as core::cmp::|"
    r"core::clone::Clone::clone|<.* as core::clone::Clone>::clone|core::default::Default::default)")


def fn_closure(prog, root, crate):
    """In-crate functions reachable from root (bodies present, same crate), following
    calls, passed closures and drop impls."""
    seen = set()
    dq = deque([root])
    while dq:
        k = dq.popleft()
        if k in seen:
            continue
        b = prog.get(k)
        if b is None or b.crate != crate:
            continue
        seen.add(k)
        for c in prog.callgraph.get(k, ()):
            if c not in seen:
                dq.append(c)
    return seen


def const_of_local(body, l, depth=0):
    """If local l has a single def that is `use const`, return the evaluated value."""
    defs = []
    for s, st in body.assigns():
        if st["dst"]["l"] == l and not st["dst"].get("p"):
            defs.append(st)
    for s, t in body.calls():
        if t["dst"]["l"] == l:
            return None
    if len(defs) != 1:
        return None
    rv = defs[0]["rv"]
    if rv["k"] == "use":
        op = rv["ops"][0]
        if op.get("k") == "const":
            return op.get("ev")
        if depth < 3 and op.get("k") in ("copy", "move") and not op["pl"].get("p"):
            return const_of_local(body, op["pl"]["l"], depth + 1)
    return None


def operand_const(body, op):
    if op.get("k") == "const":
        return op.get("ev")
    if op.get("k") in ("copy", "move") and not op["pl"].get("p"):
        return const_of_local(body, op["pl"]["l"])
    return None


def assert_const_true(body, term):
    """BoundsCheck-style assert whose condition folds to the expected value from constants."""
    cond = term["cond"]
    l = operand_local(cond)
    if l is None or cond["pl"].get("p"):
        return False
    defs = [st for s, st in body.assigns() if st["dst"]["l"] == l and not st["dst"].get("p")]
    if len(defs) != 1:
        return False
    rv = defs[0]["rv"]
    if rv["k"] != "binop":
        return False
    a = operand_const(body, rv["ops"][0])
    b = operand_const(body, rv["ops"][1])
    if a is None or b is None:
        return False
    op = rv["op"]
    val = {"Lt": a < b, "Le": a <= b, "Gt": a > b, "Ge": a >= b, "Eq": a == b, "Ne": a != b}.get(op)
    if val is None:
        return False
    return val == term["expected"]


def totality(prog, root, crate, assert_allow=None, guarded_load=None):
    assert_allow = assert_allow or {}
    fns = fn_closure(prog, root, crate)
    out = {"functions": fns, "violations": [], "unclassified": set(), "const_true": {}, "tabled": {},
           "n_calls": 0, "n_incrate": 0, "n_allowed": 0}
    for f in sorted(fns):
        b = prog.get(f)
        tabled = 0
        for bb in sorted(b.reachable_blocks()):
            blk = b.blocks[bb]
            if blk.get("cleanup"):
                continue
            t = blk["term"]
            s = b.term_site(bb)
            if t["k"] == "assert":
                if assert_const_true(b, t):
                    out["const_true"][f] = out["const_true"].get(f, 0) + 1
                    continue
                al = assert_allow.get(f)
                if al and al[0] == t["msg"]:
                    tabled += 1
                    if tabled <= al[1]:
                        out["tabled"][f] = tabled
                        continue
                out["violations"].append({"fn": f, "kind": "assert:" + t["msg"], "loc": b.loc(s),
                                          "what": "Assert(%s) at %s" % (t["msg"], b.loc(s))})
            elif t["k"] == "call":
                out["n_calls"] += 1
                callees = b.callees_of_call(t, passed=False)
                declared = norm(t.get("callee", ""))
                if t.get("target") is None:
                    out["violations"].append({"fn": f, "kind": "diverge:" + declared, "loc": b.loc(s),
                                              "what": "diverging call `%s` at %s" % (declared, b.loc(s))})
                    continue
                if any(prog.get(c) is not None and prog.get(c).crate == crate for c in callees):
                    out["n_incrate"] += 1
                    continue
                names = sorted(callees)
                if any(PANIC_RE.search(c) for c in names):
                    out["violations"].append({"fn": f, "kind": "panic:" + declared, "loc": b.loc(s),
                                              "what": "panic-family call `%s` at %s" % (declared, b.loc(s))})
                    continue
                if any("bitvec::field::BitField::load" in c for c in names):
                    if guarded_load is not None and guarded_load(prog, b, s, t):
                        out["n_allowed"] += 1
                    else:
                        out["violations"].append({"fn": f, "kind": "deny:BitField::load", "loc": b.loc(s),
                                                  "what": "BitField::load without a dominating bit-width validation at %s" % b.loc(s)})
                    continue
                if any(c == "alloc::vec::Vec::with_capacity" for c in names):
                    a0 = t["args"][0] if t.get("args") else None
                    if a0 is not None and operand_const(b, a0) is not None:
                        out["n_allowed"] += 1
                    else:
                        out["violations"].append({"fn": f, "kind": "deny:Vec::with_capacity", "loc": b.loc(s),
                                                  "what": "Vec::with_capacity from a non-constant (untrusted) length at %s" % b.loc(s)})
                    continue
                d = [c for c in names if DENY_RE.search(c)]
                if d:
                    out["violations"].append({"fn": f, "kind": "deny:" + d[0], "loc": b.loc(s),
                                              "what": "panicking API `%s` at %s" % (d[0], b.loc(s))})
                    continue
                if any(ALLOW_RE.search(c) for c in names):
                    out["n_allowed"] += 1
                    continue
                out["unclassified"].add(declared)
    return out


# ---- K1 who-may ---------------------------------------------------------------------------
def callers(prog, target, passed=False, crates=None):
    """{caller nkey (closures mapped to themselves)} -> [(body, site)] calling `target` directly."""
    out = {}
    for b in prog.all_bodies(crates):
        for s, t in b.calls():
            if target in b.callees_of_call(t, passed=passed):
                out.setdefault(b.nkey, []).append((b, s))
    return out


def root_fn(prog, nkey):
    """Map a closure key to the function it is lexically inside."""
    b = prog.get(nkey)
    if b is not None and b.parent:
        return b.parent
    return nkey


def closures_calling(prog, parent, callee, passed=False):
    """Closure bodies lexically inside fn `parent` (at any depth) that directly call `callee` (an nkey, or a predicate on
    nkeys).  Closures are selected by what they do, never by their index: adding an unrelated closure to the function
    renumbers `{closure#n}` and must not move a rule to another body."""
    pred = callee if callable(callee) else (lambda c: c == callee)
    out = []
    for b in prog.children.get(parent, []):
        if any(pred(c) for s, t in b.calls() for c in b.callees_of_call(t, passed=passed)):
            out.append(b)
    return sorted(out, key=lambda b: b.nkey)


def writers_of_field(prog, field, crates=None, kinds=("assign", "refmut", "call_dst")):
    """{root fn nkey: [(body, site, kind)]} for writes to Adt.field."""
    out = {}
    for b, s, k in prog.field_writes(field, crates):
        if k not in kinds:
            continue
        out.setdefault(root_fn(prog, b.nkey), []).append((b, s, k))
    return out


def check_who_may(ctx, rule, what, actual, allowed, locs=None, required=None, helpers=True):
    """actual: set of keys; allowed: dict key->reason or set.  One obligation per actual key.  With helpers=True a function that is not in
    the table is accepted when all of its callers are (a helper extracted from an allowed function does not change who may do the thing);
    pass helpers=False where the *shape* of the allowed functions matters (e.g. a loop discipline checked on them)."""
    allowed_keys = set(allowed)
    ok_all = True
    prog = getattr(ctx, "prog", None)
    for k in sorted(actual):
        ok = k in allowed_keys
        how = "`%s` is an allowed %s" % (k, what)
        if not ok and helpers and prog is not None and prog.get(k) is not None:
            # a helper extracted from allowed functions: every caller (up to two levels of such helpers) is itself allowed
            def only_allowed_callers(fn, depth=0):
                cs = {root_fn(prog, c) for c in callers(prog, fn, passed=True)} - {fn}
                if not cs:
                    return False
                return all(c in allowed_keys or (depth < 2 and only_allowed_callers(c, depth + 1)) for c in cs)
            if only_allowed_callers(k):
                ok = True
                how = "`%s` is a helper whose only callers are allowed %ss" % (k, what)
        ok_all &= ok
        ctx.ob(rule, "%s|%s" % (what, k), ok,
               how if ok else ("`%s` is NOT an allowed %s (allowed: %s)" % (k, what, sorted(allowed_keys))),
               loc=(locs or {}).get(k))
    for k in sorted(required or ()):
        ok = k in actual
        ok_all &= ok
        ctx.ob(rule, "%s|required|%s" % (what, k), ok,
               ("required %s `%s` present" % (what, k)) if ok else ("required %s `%s` is missing" % (what, k)))
    return ok_all


# ---- K2 / K3 ------------------------------------------------------------------------------
def calls_matching(body, pred):
    """[(site, term)] for call terminators whose direct callee set satisfies pred(set)."""
    return [(s, t) for s, t in body.calls() if pred(body.callees_of_call(t, passed=False))]


def sites_calling(prog, body, goal, icc=(), include_drops=True):
    goal = set(goal)
    return [s for s in body.sites() if prog.site_calls(body, s, goal, icc, include_drops)]


def must_precede(prog, body, site, goal, icc=(), include_drops=True):
    """Every entry->site path passes through a site that calls something in goal.
    Returns None when it holds, else a witness (the site reached)."""
    goal = set(goal)
    return body.path_exists(None, lambda s: s == site, lambda s: prog.site_calls(body, s, goal, icc, include_drops))


def must_follow(prog, body, site, goal, icc=(), include_drops=True, start_bb=None):
    """Every path from just after `site` (or from the start of start_bb) to a return passes through
    a site calling something in goal.  None when it holds, else the return site reached."""
    goal = set(goal)
    avoid = lambda s: prog.site_calls(body, s, goal, icc, include_drops)
    if start_bb is not None:
        return body.path_exists(Site(start_bb, 0), body.is_return, avoid, start_inclusive=True)
    return body.path_exists(site, body.is_return, avoid)


def bool_branch(body, call_site):
    """For a call whose result is a bool consumed by a SwitchInt (possibly through copies and `!`),
    return (true_bb, false_bb) or None."""
    t = body.at(call_site)
    if t.get("k") != "call" or t["dst"].get("p"):
        return None
    cur = t["dst"]["l"]
    neg = False
    seen = set()
    # follow forward through blocks dominated by the call
    for _ in range(12):
        nxt = None
        for s in body.sites():
            st = body.at(s)
            if st.get("k") == "assign" and not st["dst"].get("p"):
                rv = st["rv"]
                if rv["k"] == "use" and operand_local(rv["ops"][0]) == cur and not rv["ops"][0]["pl"].get("p"):
                    if (s.bb, s.idx) in seen:
                        continue
                    seen.add((s.bb, s.idx))
                    nxt = (st["dst"]["l"], neg)
                elif rv["k"] == "unop" and rv.get("op") == "Not" and operand_local(rv["ops"][0]) == cur:
                    if (s.bb, s.idx) in seen:
                        continue
                    seen.add((s.bb, s.idx))
                    nxt = (st["dst"]["l"], not neg)
            elif st.get("k") == "switch" and operand_local(st["discr"]) == cur and not st["discr"]["pl"].get("p"):
                arms = dict((a[0], a[1]) for a in st["arms"])
                f = arms.get(0, st["otherwise"])
                tr = arms.get(1, st["otherwise"])
                return (f, tr) if neg else (tr, f)
        if nxt is None:
            return None
        # the copy must be the only definition of its destination: a local that is also assigned on another path
        # (a merged `a && b`) does not carry the call's answer alone
        ndefs = sum(1 for s in body.sites() if body.at(s).get("k") in ("assign", "call") and body.at(s).get("dst") and
                    body.at(s)["dst"]["l"] == nxt[0] and not body.at(s)["dst"].get("p"))
        if ndefs != 1:
            return None
        cur, neg = nxt
    return None


def may_reach_set(prog, targets):
    """All nkeys from which some key in targets is reachable through the call graph."""
    rev = {}
    for k, cs in prog.callgraph.items():
        for c in cs:
            rev.setdefault(c, set()).add(k)
    seen = set()
    dq = deque(targets)
    while dq:
        k = dq.popleft()
        if k in seen:
            continue
        seen.add(k)
        for p in rev.get(k, ()):
            if p not in seen:
                dq.append(p)
    return seen


SWITCH = "shuttle_engine::runtime::thread::continuation::switch"


def mentions_field(body, site, field):
    """Does the statement/terminator at site mention a place with projection field `Adt.field`?"""
    st = body.at(site)
    tag = "F:" + field
    pls = list(body.places_read(st))
    if st.get("k") in ("assign", "call") and "dst" in st:
        pls.append(st["dst"])
    if st.get("k") == "drop":
        pls.append(st["pl"])
    for pl in pls:
        for p in pl.get("p", []):
            if p.startswith("F:") and norm(p[2:]) == field:
                return True
    return False


def operand_enum_variant(body, op, depth=0):
    """Variant name when the operand is a constant enum value or a local built by a field-less aggregate."""
    if op.get("k") == "const":
        v = op.get("v", "")
        return v.replace("const ", "").strip().rsplit("::", 1)[-1] if "::" in v else None
    l = operand_local(op)
    if l is None or op["pl"].get("p"):
        return None
    defs = [st for s, st in body.assigns() if st["dst"]["l"] == l and not st["dst"].get("p")]
    if len(defs) != 1:
        return None
    rv = defs[0]["rv"]
    if rv["k"] == "aggr" and rv.get("ak") == "adt":
        return rv.get("variant")
    if rv["k"] == "use" and depth < 4:
        return operand_enum_variant(body, rv["ops"][0], depth + 1)
    return None


def discr_subject_field(body, sl, discr_op, depth=0):
    """For `switch(discriminant(P))`: the last field ('Adt.field') of the place P whose discriminant is
    tested, following reference temporaries (`_a = &x.f; _d = discriminant(*_a)`).  None if not of that shape."""
    l = operand_local(discr_op)
    if l is None:
        return None
    for (s, st) in sl.defs.get(l, []):
        if st.get("k") != "assign":
            continue
        rv = st["rv"]
        if rv["k"] == "discr":
            lf = last_field(rv["pl"])
            if lf:
                return lf
            return _place_origin_field(body, sl, rv["pl"]["l"], 0)
        if rv["k"] == "use" and depth < 3:
            r = discr_subject_field(body, sl, rv["ops"][0], depth + 1)
            if r:
                return r
    return None


def _place_origin_field(body, sl, l, depth):
    for (s, st) in sl.defs.get(l, []):
        if st.get("k") != "assign":
            continue
        rv = st["rv"]
        if rv["k"] in ("ref", "copy_for_deref", "rawptr"):
            lf = last_field(rv["pl"])
            if lf:
                return lf
            if depth < 4:
                return _place_origin_field(body, sl, rv["pl"]["l"], depth + 1)
        if rv["k"] == "use" and depth < 4:
            op = rv["ops"][0]
            if op.get("k") in ("copy", "move"):
                lf = last_field(op["pl"])
                if lf:
                    return lf
                return _place_origin_field(body, sl, op["pl"]["l"], depth + 1)
    return None


# ---- thread-local / static state ------------------------------------------------------------
def sites_mentioning_item(prog, item, crates=None):
    """[(body, site)] whose statement/terminator has a constant operand naming `item`."""
    out = []
    for b in prog.all_bodies(crates):
        for s in b.sites():
            st = b.at(s)
            for op in b.operands_of(st):
                if item in prog.const_items(op):
                    out.append((b, s))
                    break
            else:
                if st.get("k") == "assign" and st["rv"]["k"] == "tlref" and norm(st["rv"]["def"]) == item:
                    out.append((b, s))
    return out


def local_items(prog, body, l, depth=0):
    """Items a local stands for: `_x = const ITEM` / `_x = const promoted(&ITEM)` / `_y = &(*_x)` chains."""
    out = set()
    for st in body.whole_defs.get(l, ()):
        rv = st["rv"]
        if rv["k"] == "use":
            op = rv["ops"][0]
            out |= prog.const_items(op)
            sl = operand_local(op)
            if sl is not None and depth < 4:
                out |= local_items(prog, body, sl, depth + 1)
        elif rv["k"] in ("ref", "copy_for_deref") and depth < 4:
            out |= local_items(prog, body, rv["pl"]["l"], depth + 1)
    return out


def call_items(prog, body, term):
    """Items named (directly or through a local) by the arguments of a call."""
    out = set()
    for a in term.get("args", []):
        out |= prog.const_items(a)
        l = operand_local(a)
        if l is not None:
            out |= local_items(prog, body, l)
    return out


def _closure_overwrites(prog, key, field=None):
    """Does the closure body (passed to LocalKey::with) overwrite / clear the value it is given?  With `field` (last-field name of a
    struct field of the value): does it overwrite that field (the overwriting site's receiver / destination derives from the field)?"""
    cb = prog.get(key)
    if cb is None:
        return False
    sl = Slicer(cb, alias_defs=True) if field else None

    def on_field(op_or_pl_local):
        if field is None:
            return True
        labs, _ = sl.slice_locals([op_or_pl_local]) if isinstance(op_or_pl_local, int) else sl.slice_operand(op_or_pl_local)
        return ("field:" + field) in labs

    for s, st in cb.assigns():
        if "*" in st["dst"].get("p", []) and st["rv"]["k"] in ("use", "aggr"):
            if field is None or last_field(st["dst"]) == field or on_field(st["dst"]["l"]):
                return True
    for s, t in cb.calls():
        for c in cb.callees_of_call(t, passed=False):
            if c.endswith(("::clear", "::take", "mem::replace", "mem::take", "Cell::set", "Cell::replace", "RefCell::replace", "::store")) or \
                    re.search(r"cell::(Cell|RefCell)<.*>::(set|replace|take)$", c):
                if field is None or (t.get("args") and on_field(t["args"][0])):
                    return True
    return False


def interior_fields(prog, item_ty):
    """[(field key, type)] of the interior-mutable fields of the struct a LocalKey<T> / static holds; [] when T is not a workspace struct."""
    m = re.search(r"LocalKey<(.+)>$", item_ty or "")
    inner = norm(m.group(1)) if m else norm(item_ty or "")
    a = prog.adts.get(inner)
    if not a or a.get("kind") != "Struct":
        return []
    out = []
    for f in a["variants"][0]["fields"]:
        if re.search(r"cell::(Cell|RefCell|OnceCell|UnsafeCell)<|atomic::Atomic|sync::(poison::)?(mutex::Mutex|rwlock::RwLock)<", f["ty"]):
            out.append((inner + "." + f["name"], f["ty"]))
    return out


def resetting_mentions(prog, item, crates=None, field=None):
    """Mentions of a LocalKey/static item that (over)write its content: `.set(..)`, `.replace(..)`, `.take()`,
    or `.with(|v| <overwrite or clear>)`."""
    out = []
    idx = getattr(prog, "_item_call_index", None)
    if idx is None:
        idx = {}
        for b in prog.all_bodies():
            for s, st in b.calls():
                for it in call_items(prog, b, st):
                    idx.setdefault(it, []).append((b, s, st))
        prog._item_call_index = idx
    for b, s, st in idx.get(item, []):
        if crates is not None and b.crate not in crates:
            continue
        names = b.callees_of_call(st, passed=False)
        meth = {n.rsplit("::", 1)[-1] for n in names}
        if meth & {"set", "replace", "take"}:
            out.append((b, s, "set"))          # LocalKey<Cell/RefCell<..>>::set / replace / take: replaces the whole value
        elif meth & {"with", "try_with", "with_borrow_mut"}:
            if any(_closure_overwrites(prog, c, field) for c in b.passed_callables(st)):
                out.append((b, s, "with-overwrite"))
    return out


def reset_on_entry(prog, run_body, S, item, exclude=(), field=None):
    """Is `item` (or, with `field`, that field of the struct it holds) (over)written on every path from run_body's entry to site S?
    Returns (bool, explanation)."""
    ms = [(b, s, k) for b, s, k in resetting_mentions(prog, item, field=field) if root_fn(prog, b.nkey) not in exclude]
    if not ms:
        return False, "no function overwrites it"
    direct = [(b, s) for b, s, k in ms if b is run_body and run_body.site_dominates(s, S)]
    if direct:
        return True, "written in %s at %s" % (run_body.nkey.split("::")[-1], run_body.loc(direct[0][1]))
    # functions in which the overwrite happens on every path
    W = set()
    for b, s, k in ms:
        if b.parent:
            continue
        if b.path_exists(None, b.is_return, lambda x, s=s: x == s) is None:
            W.add(b.nkey)
    if not W:
        return False, "overwritten only conditionally in %s" % sorted({root_fn(prog, b.nkey) for b, s, k in ms})
    M = prog.must_call(W) | W
    w = must_precede(prog, run_body, S, M)
    if w is None:
        return True, "through %s" % sorted(x.split("::")[-1] for x in W)
    return False, "writers %s are not called on every path to the main task" % sorted(W)
