"""Symbolic evaluation of integer-valued MIR operands to linear forms.

A form is a dict symbol -> integer coefficient; the symbol "const" carries the constant term.  Symbols are
"F:<last field>" for a load through a field projection, "arg:<n>" for a parameter, "len:<sym>" for `.len()` of such a
place.  Anything else (a call result, a local with several definitions, multiplication, ...) evaluates to None — the
caller must treat None as "not established", never as zero.
"""
from engine.facts import last_field

ADD = ("Add", "AddWithOverflow", "AddUnchecked")
SUB = ("Sub", "SubWithOverflow", "SubUnchecked")


def add(a, b, sign=1):
    if a is None or b is None:
        return None
    out = dict(a)
    for k, v in b.items():
        out[k] = out.get(k, 0) + sign * v
    return {k: v for k, v in out.items() if v}


def canon(f):
    return None if f is None else tuple(sorted(f.items()))


class Lin:
    def __init__(self, body, names=None):
        self.b = body
        self.names = names or {}           # local name -> symbol (treated as opaque named quantities)
        self.defs = {}
        for s in body.sites():
            st = body.at(s)
            if st.get("k") in ("assign", "call") and "dst" in st and not st["dst"].get("p"):
                self.defs.setdefault(st["dst"]["l"], []).append(st)

    def op(self, o, depth=0):
        if o is None or depth > 30:
            return None
        if o.get("k") == "const":
            ev = o.get("ev")
            return ({"const": ev} if ev else {}) if isinstance(ev, int) and not isinstance(ev, bool) else None
        return self.place(o["pl"], depth)

    def place(self, pl, depth):
        l = pl["l"]
        proj = pl.get("p") or []
        fld = last_field(pl)
        if fld:
            return {"F:" + fld: 1}
        name = self.b.local_name(l)
        if not proj and name in self.names:
            return {self.names[name]: 1}
        # `(tmp.0)` of a checked arithmetic tuple
        if proj and proj != ["T:0"]:
            return None
        if 1 <= l <= self.b.arg_count and not self.defs.get(l):
            return {"arg:%d" % l: 1} if not proj else None
        ds = self.defs.get(l, [])
        if len(ds) != 1:
            return None
        st = ds[0]
        if st.get("k") == "call":
            names = self.b.callees_of_call(st, passed=False)
            if any(n.endswith(("::checked_add", "::wrapping_add", "::saturating_add")) for n in names):
                return add(self.op(st["args"][0], depth + 1), self.op(st["args"][1], depth + 1))
            if any(n.endswith(("Try::branch", "Try>::branch", "From>::from", "From::from", "Into>::into", "Into::into", "Option::unwrap", "Option::expect",
                               "Result::unwrap", "Result::expect")) for n in names):
                return self.op(st["args"][0], depth + 1)       # value-preserving wrappers (`?`, newtype conversions)
            for n in sorted(names):
                for pat, sym in getattr(self, "opaque", {}).items():
                    if n.endswith(pat):
                        return {sym: 1}                         # a named opaque quantity (e.g. the result of a random draw)
            return None
        rv = st["rv"]
        if rv["k"] in ("use", "cast"):
            return self.op(rv["ops"][0], depth + 1)
        if rv["k"] == "binop" and rv.get("op") in ADD:
            return add(self.op(rv["ops"][0], depth + 1), self.op(rv["ops"][1], depth + 1))
        if rv["k"] == "binop" and rv.get("op") in SUB:
            return add(self.op(rv["ops"][0], depth + 1), self.op(rv["ops"][1], depth + 1), -1)
        return None
