"""Fact extraction: runs the rustc_private driver over /repo's CURRENT working tree.

Facts are cached under /verif/.cache/facts/<tree-hash>-<config>/ where <tree-hash> is a
content hash of every tracked or untracked (non-ignored) file of /repo, so an edited tree is
always re-extracted.  The cargo target directory is a fresh mktemp directory that is removed
as soon as extraction ends (cargo's freshness cache would otherwise skip the wrapper).
"""
import fcntl
import hashlib
import json
import os
import shutil
import subprocess
import sys
import tempfile
import time

VERIF = os.path.dirname(os.path.dirname(os.path.abspath(__file__)))
REPO = os.environ.get("VERIF_REPO", "/repo")
CACHE = os.path.join(VERIF, ".cache", "facts")
DRIVER_DIR = os.path.join(VERIF, "engine", "driver")
DRIVER = os.path.join(DRIVER_DIR, "target", "release", "shuttle-facts-driver")

# configuration name -> cargo arguments
CONFIGS = {
    # default features everywhere + vector clocks (the clock API is a stub without it)
    "vc": ["--workspace", "--features", "shuttle/vector-clocks"],
    # plain default features (clock stubs)
    "plain": ["--workspace"],
    # annotation feature (adds ANNOTATION_STATE and the annotation scheduler)
    "annotation": ["--workspace", "--features", "shuttle/vector-clocks,shuttle/annotation"],
}

# floors: number of bodies per crate measured on the pinned tree (config "vc"); extraction
# fails closed when a crate disappears or shrinks below 80% of what was measured.
FLOORS = {
    "shuttle_engine": 721,
    "shuttle_std": 829,
    "shuttle_schedulers": 117,
    "shuttle": 23,
    "shuttle_tokio_impl_inner": 722,
    "shuttle_parking_lot_impl": 83,
    "shuttle_dashmap_impl": 117,
    "deterministic_collections": 51,
    "shuttle_rand_0_8_inner": 9,
}


def sh(cmd, **kw):
    return subprocess.run(cmd, stdout=subprocess.PIPE, stderr=subprocess.STDOUT, text=True, **kw)


def tree_hash():
    r = subprocess.run(["git", "-C", REPO, "ls-files", "-co", "--exclude-standard", "-z"],
                       stdout=subprocess.PIPE, stderr=subprocess.DEVNULL)
    if r.returncode == 0 and os.path.exists(os.path.join(REPO, ".git")):
        files = [f for f in r.stdout.decode().split("\0") if f]
    else:
        # scratch copy without git metadata (checker self-test): walk the tree
        files = []
        for root, dirs, fs in os.walk(REPO):
            dirs[:] = [d for d in dirs if d not in ("target", ".git")]
            for f in fs:
                files.append(os.path.relpath(os.path.join(root, f), REPO))
    files.append("Cargo.lock")
    h = hashlib.sha256()
    for f in sorted(set(files)):
        p = os.path.join(REPO, f)
        if not os.path.isfile(p):
            continue
        if not (f.endswith(".rs") or f.endswith(".toml") or f.endswith(".lock")):
            continue
        h.update(f.encode())
        h.update(b"\0")
        with open(p, "rb") as fh:
            h.update(fh.read())
        h.update(b"\0")
    # the driver is part of the identity of the facts
    with open(os.path.join(DRIVER_DIR, "src", "main.rs"), "rb") as fh:
        h.update(fh.read())
    return h.hexdigest()[:20]


def sysroot():
    return subprocess.run(["rustc", "+nightly", "--print", "sysroot"], stdout=subprocess.PIPE,
                          text=True, check=True).stdout.strip()


def build_driver():
    if os.path.exists(DRIVER):
        src = os.path.getmtime(os.path.join(DRIVER_DIR, "src", "main.rs"))
        if os.path.getmtime(DRIVER) >= src:
            return
    env = dict(os.environ)
    env["CARGO_NET_OFFLINE"] = "true"
    r = sh(["cargo", "+nightly", "build", "--release", "--offline"], cwd=DRIVER_DIR, env=env)
    if r.returncode != 0:
        sys.stderr.write(r.stdout)
        raise SystemExit("driver build failed")


def facts_dir(config="vc", log=None):
    """Return the directory holding the facts of /repo's current tree for `config`,
    extracting them first when they are not cached."""
    os.makedirs(CACHE, exist_ok=True)
    build_driver()
    h = tree_hash()
    d = os.path.join(CACHE, "%s-%s" % (h, config))
    marker = os.path.join(d, "_complete.json")
    if os.path.exists(marker):
        try:
            os.utime(d, None)          # least-recently-used pruning
        except OSError:
            pass
        return d
    # one lock per (tree, configuration): different trees are extracted concurrently
    lock = open(os.path.join(CACHE, ".lock-%s-%s" % (h, config)), "w")
    fcntl.flock(lock, fcntl.LOCK_EX)
    try:
        if os.path.exists(marker):
            return d
        if os.path.exists(d):
            shutil.rmtree(d)
        tmpout = d + ".partial"
        if os.path.exists(tmpout):
            shutil.rmtree(tmpout)
        os.makedirs(tmpout)
        target = tempfile.mkdtemp(prefix="verif-target-")
        t0 = time.time()
        try:
            env = dict(os.environ)
            env.update({
                "LD_LIBRARY_PATH": os.path.join(sysroot(), "lib") + ":" + env.get("LD_LIBRARY_PATH", ""),
                "VERIF_FACTS_DIR": tmpout,
                "RUSTFLAGS": "-Zmir-opt-level=0",
                "RUSTC_WORKSPACE_WRAPPER": DRIVER,
                "CARGO_TARGET_DIR": target,
                "CARGO_NET_OFFLINE": "true",
            })
            env.pop("RUSTC_WRAPPER", None)
            cmd = ["cargo", "+nightly", "check", "--offline"] + CONFIGS[config]
            r = sh(cmd, cwd=REPO, env=env)
            if r.returncode != 0:
                sys.stderr.write(r.stdout[-6000:])
                raise SystemExit("fact extraction failed: /repo does not type-check under `%s`" % " ".join(cmd))
        finally:
            shutil.rmtree(target, ignore_errors=True)
        # coverage guard
        import glob
        counts = {}
        for f in glob.glob(os.path.join(tmpout, "*.json")):
            with open(f) as fh:
                j = json.load(fh)
            counts[j["crate"]] = max(counts.get(j["crate"], 0), len(j["bodies"]))
        problems = []
        for c, floor in FLOORS.items():
            if counts.get(c, 0) < int(0.8 * floor):
                problems.append("%s: %d bodies < 80%% of floor %d" % (c, counts.get(c, 0), floor))
        if problems:
            raise SystemExit("fact coverage guard failed: " + "; ".join(problems))
        with open(os.path.join(tmpout, "_complete.json"), "w") as fh:
            json.dump({"config": config, "tree_hash": h, "wall_s": round(time.time() - t0, 1),
                       "bodies_per_crate": counts}, fh)
        os.rename(tmpout, d)
        prune()
        return d
    finally:
        fcntl.flock(lock, fcntl.LOCK_UN)
        lock.close()


def prune(keep=40):
    ds = [os.path.join(CACHE, x) for x in os.listdir(CACHE) if os.path.isdir(os.path.join(CACHE, x)) and not x.endswith('.partial')]
    ds.sort(key=lambda p: os.path.getmtime(p), reverse=True)
    for p in ds[keep:]:
        shutil.rmtree(p, ignore_errors=True)


if __name__ == "__main__":
    cfg = sys.argv[1] if len(sys.argv) > 1 else "vc"
    print(facts_dir(cfg))
