"""No scheduling point while a RefCell borrow is alive.

Shuttle's primitives keep their bookkeeping in `RefCell`s and are declared `Sync` on the argument that a task cannot be pre-empted in
the middle of a bookkeeping operation.  That holds only if no call that may reach `thread::switch` is made while a `Ref`/`RefMut` of
such a cell is alive: another task scheduled at that point panics with `already borrowed` on its first touch of the same primitive.

`held_across_yield(prog, body, may_switch)` returns [(borrow_site, yield_site, callee)] for every RefCell borrow in `body` from which a
may-switch call is reachable before the guard is dropped (DROP terminator of a local holding it, or `mem::drop(guard)`).  Guards are
followed through whole-local moves.  Temporaries that are dropped at the end of their statement are handled by the same rule.
"""
import re

from engine.facts import operand_local

# RefCell borrows, and guards of *real* std locks (the wrappers keep some bookkeeping under std::sync::Mutex: a second task scheduled
# while such a guard is held would block the one OS thread all tasks run on)
BORROW_RE = re.compile(r"core::cell::RefCell(<.*>)?::(borrow_mut|borrow|try_borrow_mut|try_borrow)$|"
                       r"^std::sync::(poison::)?(mutex::Mutex|rwlock::RwLock)(<.*>)?::(lock|try_lock|read|write|try_read|try_write)$")


def _guard_locals(body, g0):
    """Locals that may hold the guard produced into local g0 (closure of whole-local moves / copies, Result/Option unwraps of try_borrow)."""
    G = {g0}
    changed = True
    while changed:
        changed = False
        for s in body.sites():
            st = body.at(s)
            if st.get("k") == "assign" and not st["dst"].get("p"):
                rv = st["rv"]
                if rv["k"] in ("use",) and rv["ops"] and operand_local(rv["ops"][0]) in G:
                    src = rv["ops"][0]["pl"]
                    # whole move, or the payload of Ok(..)/Some(..) of a try_borrow result
                    if st["dst"]["l"] not in G:
                        G.add(st["dst"]["l"])
                        changed = True
            elif st.get("k") == "call" and st.get("dst") and not st["dst"].get("p"):
                names = body.callees_of_call(st, passed=False)
                if any(n.endswith(("Result::unwrap", "Result::expect", "Option::unwrap", "Option::expect")) for n in names) and st.get("args") and \
                        operand_local(st["args"][0]) in G and st["dst"]["l"] not in G:
                    G.add(st["dst"]["l"])
                    changed = True
    return G


def held_across_yield(prog, body, may_switch):
    out = []
    for s, t in body.calls():
        names = body.callees_of_call(t, passed=False)
        if not any(BORROW_RE.search(n) for n in names) or t["dst"].get("p"):
            continue
        G = _guard_locals(body, t["dst"]["l"])

        def kills(x):
            st = body.at(x)
            k = st.get("k")
            if k == "drop" and st["pl"]["l"] in G and not st["pl"].get("p"):
                return True
            if k == "call":
                cn = body.callees_of_call(st, passed=False)
                if any(n == "core::mem::drop" or n.startswith("core::mem::drop::") for n in cn) and st.get("args") and operand_local(st["args"][0]) in G:
                    return True
                # the guard is moved into another function (it then lives, and dies, there)
                if any(a.get("k") == "move" and operand_local(a) in G and not a["pl"].get("p") for a in st.get("args", [])):
                    return True
            if k == "assign" and not st["dst"].get("p") and st["dst"]["l"] in G and st["dst"]["l"] != t["dst"]["l"]:
                # the variable is overwritten by a new value (the old guard was dropped just before by a DROP terminator)
                return False
            return False

        seen_y = set()
        for x in sorted(body.reach_sites(s, is_avoid=kills)):
            if x == s or not body.is_term(x):
                continue
            st = body.term(x.bb)
            if st.get("k") != "call" or kills(x):
                continue
            cs = body.callees_of_call(st) & may_switch
            if cs and x not in seen_y:
                seen_y.add(x)
                out.append((s, x, sorted(cs)[0]))
    return out


def rule_no_guard_across_choice_point(ctx, rule, crates, table, floor):
    """One obligation per function of `crates` that takes a RefCell borrow / std lock guard: no may-switch call while it is alive."""
    from engine import kinds
    prog = ctx.prog
    may_switch = kinds.may_reach_set(prog, {kinds.SWITCH})
    nb = 0
    for b in prog.all_bodies(crates):
        if "::tests::" in b.nkey or "::test::" in b.nkey:
            continue
        sites = [s for s, t in b.calls() if any(BORROW_RE.search(c) for c in b.callees_of_call(t, passed=False))]
        if not sites:
            continue
        nb += len(sites)
        root = kinds.root_fn(prog, b.nkey)
        if root in table:
            ctx.ob(rule, "borrow-table|" + root, True, "`%s` is a table entry: %s" % (root, table[root]), loc=b.loc(), nontrivial=False)
            continue
        bad = held_across_yield(prog, b, may_switch)
        ctx.ob(rule, "no-borrow-across-choice-point|" + b.nkey, not bad,
               "`%s`: no RefCell borrow / std lock guard is alive at a call that may reach a choice point (%d site(s))" % (b.nkey, len(sites)) if not bad else
               "`%s` keeps the borrow / guard taken at %s alive across `%s` at %s, which may reach thread::switch: a task scheduled there panics with "
               "`already borrowed` (or blocks the only OS thread) on its next operation on the same object" % (b.nkey, b.loc(bad[0][0]), bad[0][2], b.loc(bad[0][1])),
               loc=b.loc(bad[0][1]) if bad else b.loc())
    ctx.floor(rule, "borrow / guard sites examined", nb, floor)
