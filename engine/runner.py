"""Rule runner: obligations, violations, known findings, evidence."""
import importlib
import json
import os
import sys
import time

from . import extract
from .facts import Program, norm

VERIF = extract.VERIF
EVID = os.environ.get("VERIF_EVIDENCE_DIR") or os.path.join(VERIF, "evidence")
KNOWN = os.path.join(VERIF, "known_findings.json")


class AnchorLost(Exception):
    pass


class Ctx:
    def __init__(self, prop, prog, tier, config):
        self.prop = prop
        self.prog = prog
        self.tier = tier
        self.config = config
        self.obs = []           # obligations
        self.notes = []
        self.anchors = []
        self.assumptions = []
        self.undecided = []
        self.bodies_touched = set()

    # -- anchors -------------------------------------------------------------------
    def body(self, nkey, rule):
        b = self.prog.get(nkey)
        if b is None:
            n = len(self.prog.by_norm.get(nkey, []))
            self.ob(rule, "anchor|" + nkey, False,
                    "anchor lost: function `%s` %s — rule not established" %
                    (nkey, "not found" if n == 0 else "is ambiguous (%d bodies)" % n),
                    nontrivial=False)
            raise AnchorLost(nkey)
        self.anchors.append(nkey)
        self.bodies_touched.add(nkey)
        return b

    def closure(self, parent, callee, rule, what=None):
        """The unique closure inside fn `parent` that directly calls `callee` (selected by role, not by `{closure#n}`)."""
        from engine import kinds
        cs = kinds.closures_calling(self.prog, parent, callee)
        if len(cs) != 1:
            name = what or (callee if isinstance(callee, str) else "the given role")
            self.ob(rule, "anchor|closure of %s calling %s" % (parent, name), False,
                    "anchor lost: %d closures inside `%s` call `%s` — rule not established" % (len(cs), parent, name), nontrivial=False)
            raise AnchorLost(parent)
        self.anchors.append(cs[0].nkey)
        self.bodies_touched.add(cs[0].nkey)
        return cs[0]

    def floor(self, rule, what, count, floor):
        ok = count >= floor
        self.ob(rule, "floor|" + what, ok,
                "instance count of `%s` is %d (floor confirmed by hand on the pinned tree: %d)%s" %
                (what, count, floor, "" if ok else " — rule not established"), nontrivial=False)
        return ok

    # -- obligations ------------------------------------------------------------------
    def ob(self, rule, key, ok, desc, loc=None, detail=None, nontrivial=True):
        """One obligation. key is stable (no line numbers)."""
        self.obs.append({"rule": rule, "key": "%s|%s" % (rule, key), "ok": bool(ok), "desc": desc,
                         "loc": loc, "detail": detail, "nontrivial": nontrivial})
        return ok

    def guarded(self, rule, fn):
        """Run one rule; a lost anchor has already been recorded as a violation."""
        try:
            fn(self)
        except AnchorLost:
            pass
        except Exception as e:  # fail closed: an engine error is not a pass
            import traceback
            self.ob(rule, "engine-error", False, "rule raised %s: %s" % (type(e).__name__, e),
                    detail=traceback.format_exc()[-1500:], nontrivial=False)


def load_known():
    if not os.path.exists(KNOWN):
        return []
    with open(KNOWN) as fh:
        return json.load(fh).get("findings", [])


def run_property(prop, tier, configs=None):
    t0 = time.time()
    mod = importlib.import_module("rules.%s" % prop.lower())
    configs = configs or (getattr(mod, "CONFIGS_THOROUGH", ["vc"]) if tier == "thorough" else getattr(mod, "CONFIGS_QUICK", ["vc"]))
    crates = getattr(mod, "CRATES", None)
    all_obs = []
    per_config = {}
    ctxs = []
    for cfg in configs:
        d = extract.facts_dir(cfg)
        prog = Program(d, crates=crates)
        ctx = Ctx(prop, prog, tier, cfg)
        for rule_id, fn in mod.RULES:
            ctx.guarded(rule_id, fn)
        if tier == "thorough" and hasattr(mod, "RULES_THOROUGH"):
            for rule_id, fn in mod.RULES_THOROUGH:
                ctx.guarded(rule_id, fn)
        for o in ctx.obs:
            o["config"] = cfg
        per_config[cfg] = {"crates": prog.crates, "obligations": len(ctx.obs)}
        all_obs.extend(ctx.obs)
        ctxs.append(ctx)
    extra = {}
    if tier == "thorough" and hasattr(mod, "thorough_extra"):
        extra = mod.thorough_extra(all_obs) or {}
    if tier == "thorough":
        extra.update(thorough_common(prop, all_obs))

    known = [k for k in load_known() if k.get("property") == prop and k.get("status") == "known"]
    known_keys = {k["key"]: k for k in known}
    violations = []
    known_hit = {}
    for o in all_obs:
        if o["ok"]:
            continue
        if o["key"] in known_keys:
            known_hit[o["key"]] = o
        else:
            violations.append(o)
    # one report per distinct key
    seen = set()
    uniq = []
    for v in violations:
        if (v["key"]) in seen:
            continue
        seen.add(v["key"])
        uniq.append(v)
    violations = uniq

    os.makedirs(os.path.join(EVID, "violations"), exist_ok=True)
    # clear stale reports of this property
    for f in os.listdir(os.path.join(EVID, "violations")):
        if f.startswith(prop + "-"):
            os.remove(os.path.join(EVID, "violations", f))
    for k, o in sorted(known_hit.items()):
        print("KNOWN-FINDING: property=%s %s — %s" % (prop, k, known_keys[k].get("what", o["desc"])))
    for i, v in enumerate(violations):
        p = os.path.join(EVID, "violations", "%s-%d.json" % (prop, i))
        with open(p, "w") as fh:
            json.dump({"property": prop, "rule": v["rule"], "key": v["key"], "what": v["desc"],
                       "where": v["loc"], "detail": v["detail"], "config": v.get("config"),
                       "tier": tier}, fh, indent=1)
        print("VIOLATION property=%s replay=%s" % (prop, p))
        print("  rule %s key `%s` at %s — obligation NOT discharged: %s" % (v["rule"], v["key"], v["loc"], v["desc"]))

    distinct_keys = {o["key"] for o in all_obs}
    nontrivial = {o["key"] for o in all_obs if o["nontrivial"]}
    discharged = {o["key"] for o in all_obs if o["ok"]} - {o["key"] for o in all_obs if not o["ok"]}
    samples = []
    by_rule = {}
    for o in all_obs:
        by_rule.setdefault(o["rule"], []).append(o)
    for r, os_ in sorted(by_rule.items()):
        for o in os_[:2]:
            samples.append({"rule": o["rule"], "key": o["key"], "holds": o["ok"], "where": o["loc"], "what": o["desc"]})
    ctx0 = ctxs[0]
    ev = {
        "property_id": prop,
        "tier": tier,
        "seed": int(os.environ.get("VERIF_SEED", "0") or 0),
        "level": "other",
        "coverage": {
            "explanation": getattr(mod, "EXPLANATION", ""),
            "rule": "one obligation per instance of a rule template found in the MIR facts of /repo's current tree; "
                    "non-trivial = decided by a path / dominance / dataflow / who-may query over at least one site "
                    "(anchor and floor bookkeeping obligations are counted as trivial)",
            "evaluations": len(all_obs),
            "distinct_nontrivial": len(nontrivial),
            "obligations": len(distinct_keys),
            "discharged": len(discharged),
            "rules": {r: {"instances": len(v), "failed": sum(1 for o in v if not o["ok"])} for r, v in sorted(by_rule.items())},
            "configurations": per_config,
            "anchors_resolved": sorted(set(a for c in ctxs for a in c.anchors)),
            "samples": samples[:60],
            "obligation_list": [{"key": o["key"], "holds": o["ok"], "where": o["loc"], "what": (o["desc"] or "")[:240], "config": o.get("config")}
                                for o in all_obs],
            "known_findings_matched": sorted(known_hit),
            "not_decided": getattr(mod, "NOT_DECIDED", ""),
            "exhaustive": False,
        },
        "assumptions": getattr(mod, "ASSUMPTIONS", []),
        "wall_s": round(time.time() - t0, 2),
        "violations": len(violations),
    }
    ev["coverage"].update(extra)
    os.makedirs(EVID, exist_ok=True)
    with open(os.path.join(EVID, "%s.json" % prop), "w") as fh:
        json.dump(ev, fh, indent=1)
    print("%s tier=%s configs=%s obligations=%d discharged=%d known=%d violations=%d wall=%.1fs" %
          (prop, tier, ",".join(configs), len(distinct_keys), len(discharged), len(known_hit), len(violations), time.time() - t0))
    return 1 if violations else 0


WITNESSES = {"C07": ["W2JoinConsumesHandle"], "C04": ["W3GetMutIsExclusive"], "C02": ["W3GetMutIsExclusive"],
             "C08": ["W4SchedulerCannotMutateTasks"], "C17": ["W5AwaitConsumesHandle"], "C20": ["W6ThreadRngNotSeedable"]}


def thorough_common(prop, all_obs):
    """Thorough tier additions shared by all properties: K10 compile_fail witnesses (decide a type-level clause of the
    property: a failing witness IS a violation) and the checker self-test on planted changes (evidence about the checker
    only: a missed mutant is reported in the evidence and never as a violation of /repo)."""
    extra = {}
    sys.path.insert(0, os.path.join(VERIF, "tools"))
    if prop in WITNESSES and not os.environ.get("VERIF_NO_WITNESS"):
        import witness
        res, out = witness.run()
        for w in WITNESSES[prop]:
            r = res.get(w, {})
            all_obs.append({"rule": prop + ".K10", "key": "%s.K10|%s|rejected" % (prop, w), "ok": bool(r.get("compile_fail")),
                            "desc": "witness %s: the violating program is rejected by the type checker with the expected error code" % w if r.get("compile_fail")
                            else "witness %s: the violating program now COMPILES (or fails with another error): the type-level guarantee is gone" % w,
                            "loc": "witness/src/lib.rs", "detail": out[-1500:] if not r.get("compile_fail") else None, "nontrivial": True, "config": "witness"})
            all_obs.append({"rule": prop + ".K10", "key": "%s.K10|%s|twin" % (prop, w), "ok": bool(r.get("twin")),
                            "desc": "witness %s: the compiling twin (same program without the offending line) builds" % w if r.get("twin")
                            else "witness %s: the compiling twin no longer builds — witness not established (API path changed?)" % w,
                            "loc": "witness/src/lib.rs", "detail": out[-1500:] if not r.get("twin") else None, "nontrivial": False, "config": "witness"})
        extra["witnesses"] = {w: res.get(w) for w in WITNESSES[prop]}
    if not os.environ.get("VERIF_NO_SELFTEST") and not os.environ.get("VERIF_REPO"):
        import selftest as st

        class A:
            pass
        a = A()
        a.prop, a.id, a.seeded = prop, None, False
        ms = st.load_mutants(a)
        a.seeded = True
        ms += st.load_mutants(a)
        # time budget: each planted change costs one fact extraction of a scratch copy (~1 min on an idle 16-core machine, much more under
        # load); batches are started until the budget is used up, the rest is reported as not run (evidence about the checker only)
        jobs = int(os.environ.get("VERIF_SELFTEST_JOBS", "4"))
        budget = float(os.environ.get("VERIF_SELFTEST_BUDGET_S", "1200"))
        t_st = time.time()
        res, not_run = [], []
        for i in range(0, len(ms), jobs):
            if time.time() - t_st > budget:
                not_run = [m["id"] for m in ms[i:]]
                break
            res += st.run(ms[i:i + jobs], jobs)
        extra["checker_selftest"] = {"planted_changes": sum(1 for r in res if r["status"] not in ("silent-ok", "FALSE-ALARM")),
                                     "not_run_budget_exhausted": not_run,
                                     "caught": sum(1 for r in res if r["status"] == "caught"),
                                     "behaviour_preserving_controls": sum(1 for r in res if r["status"] in ("silent-ok", "FALSE-ALARM")),
                                     "controls_silent": sum(1 for r in res if r["status"] == "silent-ok"),
                                     "results": [{"id": r["id"], "status": r["status"], "hit": (r.get("hit") or [])[:1]} for r in res]}
    return extra


def explain(path):
    with open(path) as fh:
        v = json.load(fh)
    print(json.dumps(v, indent=1))
    return 0
