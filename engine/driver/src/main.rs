// Fact extraction driver for the static checks under /verif.
//
// Invoked as RUSTC_WORKSPACE_WRAPPER: argv = [driver, rustc, rustc-args...].
// For each workspace crate compiled, writes ONE json file (one write per process)
// into $VERIF_FACTS_DIR describing ADTs, statics/consts, impls, fn signatures and the
// drop-elaborated (pre-coroutine-transform, unoptimised) MIR of every body owner.
//
// Nothing here decides a property; the rule engine (python) does.
#![feature(rustc_private)]
#![allow(clippy::all)]

extern crate rustc_abi;
extern crate rustc_data_structures;
extern crate rustc_driver;
extern crate rustc_hir;
extern crate rustc_interface;
extern crate rustc_middle;
extern crate rustc_mir_transform;
extern crate rustc_session;
extern crate rustc_span;

use rustc_driver::{Callbacks, Compilation};
use rustc_hir::def::DefKind;
use rustc_hir::def_id::{DefId, LocalDefId};
use rustc_middle::mir::{
    AggregateKind, BasicBlockData, Body, BorrowKind, Const as MirConst, Operand, Place, PlaceElem,
    Rvalue, StatementKind, TerminatorKind, UnwindAction,
};
use rustc_middle::ty::print::{with_no_trimmed_paths, with_no_visible_paths, with_resolve_crate_name};
use rustc_middle::ty::{self, GenericArgsRef, Instance, InstanceKind, Ty, TyCtxt, TypingEnv};
use rustc_span::Span;
use std::collections::BTreeSet;
use std::fmt::Write as _;

fn esc(s: &str) -> String {
    let mut o = String::with_capacity(s.len() + 2);
    o.push('"');
    for c in s.chars() {
        match c {
            '"' => o.push_str("\\\""),
            '\\' => o.push_str("\\\\"),
            '\n' => o.push_str("\\n"),
            '\r' => o.push_str("\\r"),
            '\t' => o.push_str("\\t"),
            c if (c as u32) < 0x20 => {
                let _ = write!(o, "\\u{:04x}", c as u32);
            }
            c => o.push(c),
        }
    }
    o.push('"');
    o
}

fn jlist(items: &[String]) -> String {
    let mut o = String::from("[");
    for (i, it) in items.iter().enumerate() {
        if i > 0 {
            o.push(',');
        }
        o.push_str(it);
    }
    o.push(']');
    o
}

struct Obj(String);
impl Obj {
    fn new() -> Self {
        Obj(String::from("{"))
    }
    fn raw(&mut self, k: &str, v: &str) -> &mut Self {
        if self.0.len() > 1 {
            self.0.push(',');
        }
        self.0.push_str(&esc(k));
        self.0.push(':');
        self.0.push_str(v);
        self
    }
    fn s(&mut self, k: &str, v: &str) -> &mut Self {
        let e = esc(v);
        self.raw(k, &e)
    }
    fn b(&mut self, k: &str, v: bool) -> &mut Self {
        self.raw(k, if v { "true" } else { "false" })
    }
    fn n(&mut self, k: &str, v: i128) -> &mut Self {
        self.raw(k, &v.to_string())
    }
    fn done(&mut self) -> String {
        let mut s = std::mem::take(&mut self.0);
        s.push('}');
        s
    }
}

struct Cx<'tcx> {
    tcx: TyCtxt<'tcx>,
}

impl<'tcx> Cx<'tcx> {
    fn path(&self, d: DefId) -> String {
        self.tcx.def_path_str(d)
    }

    fn span_info(&self, sp: Span) -> (String, usize, Vec<String>) {
        let sm = self.tcx.sess.source_map();
        // macro backtrace (innermost first)
        let mut macros = vec![];
        let mut cur = sp;
        let mut guard = 0;
        while cur.from_expansion() && guard < 16 {
            let ed = cur.ctxt().outer_expn_data();
            match ed.kind {
                rustc_span::ExpnKind::Macro(_, name) => macros.push(name.to_string()),
                rustc_span::ExpnKind::Desugaring(k) => macros.push(format!("desugar:{:?}", k)),
                rustc_span::ExpnKind::AstPass(k) => macros.push(format!("astpass:{:?}", k)),
                rustc_span::ExpnKind::Root => {}
            }
            cur = ed.call_site;
            guard += 1;
        }
        let lo = sm.lookup_char_pos(cur.lo());
        let file = match &lo.file.name {
            rustc_span::FileName::Real(r) => match r.local_path() {
                Some(p) => p.to_string_lossy().to_string(),
                None => format!("{:?}", lo.file.name),
            },
            other => format!("{:?}", other),
        };
        (file, lo.line, macros)
    }

    fn place(&self, body: &Body<'tcx>, p: &Place<'tcx>) -> String {
        let tcx = self.tcx;
        let mut items: Vec<String> = vec![];
        let mut pty = rustc_middle::mir::PlaceTy::from_ty(body.local_decls[p.local].ty);
        for elem in p.projection.iter() {
            let s = match elem {
                PlaceElem::Deref => "*".to_string(),
                PlaceElem::Field(idx, _fty) => match pty.ty.kind() {
                    ty::Adt(adt, _) => {
                        let vidx = pty.variant_index.unwrap_or(rustc_abi::FIRST_VARIANT);
                        let v = adt.variant(vidx);
                        let fname = v.fields[idx].name.to_string();
                        if adt.is_enum() {
                            format!("F:{}::{}.{}", self.path(adt.did()), v.name, fname)
                        } else {
                            format!("F:{}.{}", self.path(adt.did()), fname)
                        }
                    }
                    ty::Closure(d, _) | ty::Coroutine(d, _) | ty::CoroutineClosure(d, _) => {
                        format!("U:{}#{}", self.path(*d), idx.as_usize())
                    }
                    ty::Tuple(_) => format!("T:{}", idx.as_usize()),
                    _ => format!("F?:{}", idx.as_usize()),
                },
                PlaceElem::Index(l) => format!("I:_{}", l.as_usize()),
                PlaceElem::ConstantIndex { offset, from_end, .. } => {
                    format!("CI:{}{}", if from_end { "-" } else { "" }, offset)
                }
                PlaceElem::Subslice { from, to, from_end } => {
                    format!("SS:{}:{}:{}", from, to, from_end)
                }
                PlaceElem::Downcast(name, vidx) => match name {
                    Some(n) => format!("D:{}", n),
                    None => format!("D#{}", vidx.as_usize()),
                },
                PlaceElem::OpaqueCast(_) => "OC".to_string(),
                PlaceElem::UnwrapUnsafeBinder(_) => "UB".to_string(),
            };
            items.push(esc(&s));
            pty = pty.projection_ty(tcx, elem);
        }
        let mut o = Obj::new();
        o.n("l", p.local.as_usize() as i128);
        if !items.is_empty() {
            o.raw("p", &jlist(&items));
        }
        o.done()
    }

    fn konst(&self, env: TypingEnv<'tcx>, c: &rustc_middle::mir::ConstOperand<'tcx>) -> String {
        let tcx = self.tcx;
        let mut o = Obj::new();
        o.s("k", "const");
        let ty = c.const_.ty();
        o.s("ty", &format!("{}", ty));
        match ty.kind() {
            ty::FnDef(d, args) => {
                o.s("fn", &self.path(*d));
                o.s("fn_full", &tcx.def_path_str_with_args(*d, args));
                if let Some((r, rk, rf)) = self.resolve(env, *d, args) {
                    o.s("res", &r);
                    o.s("res_kind", &rk);
                    o.s("res_full", &rf);
                }
            }
            ty::Closure(d, _) => {
                o.s("closure", &self.path(*d));
            }
            _ => {}
        }
        o.s("v", &format!("{}", c.const_));
        if let MirConst::Unevaluated(u, _) = c.const_ {
            o.s("item", &self.path(u.def));
            if let Some(p) = u.promoted {
                o.n("promoted", p.as_usize() as i128);
            }
        }
        if ty.is_integral() || ty.is_bool() || ty.is_char() {
            if let Some(si) = c.const_.try_eval_scalar_int(tcx, env) {
                let size = si.size();
                let bits = si.to_bits(size);
                let val: i128 = if ty.is_signed() {
                    si.to_int(size)
                } else if bits > i128::MAX as u128 {
                    -1
                } else {
                    bits as i128
                };
                o.n("ev", val);
            }
        }
        o.done()
    }

    fn operand(&self, body: &Body<'tcx>, env: TypingEnv<'tcx>, op: &Operand<'tcx>) -> String {
        match op {
            Operand::Copy(p) => {
                let mut o = Obj::new();
                o.s("k", "copy").raw("pl", &self.place(body, p));
                o.done()
            }
            Operand::Move(p) => {
                let mut o = Obj::new();
                o.s("k", "move").raw("pl", &self.place(body, p));
                o.done()
            }
            Operand::Constant(c) => self.konst(env, c),
            #[allow(unreachable_patterns)]
            _ => {
                let mut o = Obj::new();
                o.s("k", "other").s("v", &format!("{:?}", op));
                o.done()
            }
        }
    }

    fn resolve(
        &self,
        env: TypingEnv<'tcx>,
        d: DefId,
        args: GenericArgsRef<'tcx>,
    ) -> Option<(String, String, String)> {
        let tcx = self.tcx;
        if !matches!(tcx.def_kind(d), DefKind::Fn | DefKind::AssocFn) {
            return None;
        }
        let r = std::panic::catch_unwind(std::panic::AssertUnwindSafe(|| {
            Instance::try_resolve(tcx, env, d, args)
        }));
        match r {
            Ok(Ok(Some(inst))) => {
                let kind = match inst.def {
                    InstanceKind::Item(_) => "item",
                    InstanceKind::Intrinsic(_) => "intrinsic",
                    InstanceKind::Virtual(..) => "virtual",
                    InstanceKind::ClosureOnceShim { .. } => "closure_once_shim",
                    InstanceKind::DropGlue(..) => "drop_glue",
                    InstanceKind::FnPtrShim(..) => "fn_ptr_shim",
                    InstanceKind::ReifyShim(..) => "reify_shim",
                    InstanceKind::VTableShim(..) => "vtable_shim",
                    InstanceKind::CloneShim(..) => "clone_shim",
                    _ => "other",
                };
                let rd = inst.def_id();
                Some((
                    self.path(rd),
                    kind.to_string(),
                    tcx.def_path_str_with_args(rd, inst.args),
                ))
            }
            _ => None,
        }
    }

    fn drop_impls(&self, t: Ty<'tcx>, depth: usize, seen: &mut BTreeSet<String>, out: &mut BTreeSet<String>) {
        let tcx = self.tcx;
        if depth > 7 {
            return;
        }
        let key = format!("{}", t);
        if !seen.insert(key) {
            return;
        }
        match t.kind() {
            ty::Adt(adt, args) => {
                if let Some(d) = tcx.adt_destructor(adt.did()) {
                    out.insert(self.path(d.did));
                }
                let name = self.path(adt.did());
                if name.ends_with("PhantomData") || name.ends_with("rc::Weak") || name.ends_with("sync::Weak") {
                    return;
                }
                if adt.did().is_local() || adt.is_box() {
                    if adt.is_box() {
                        self.drop_impls(args.type_at(0), depth + 1, seen, out);
                    } else {
                        for v in adt.variants().iter() {
                            for f in v.fields.iter() {
                                let fty = f.ty(tcx, args);
                                self.drop_impls(fty, depth + 1, seen, out);
                            }
                        }
                    }
                } else {
                    for a in args.iter() {
                        if let Some(t2) = a.as_type() {
                            self.drop_impls(t2, depth + 1, seen, out);
                        }
                    }
                }
            }
            ty::Tuple(ts) => {
                for t2 in ts.iter() {
                    self.drop_impls(t2, depth + 1, seen, out);
                }
            }
            ty::Array(t2, _) | ty::Slice(t2) => self.drop_impls(*t2, depth + 1, seen, out),
            ty::Closure(_, args) => {
                for t2 in args.as_closure().upvar_tys().iter() {
                    self.drop_impls(t2, depth + 1, seen, out);
                }
            }
            ty::Coroutine(d, args) => {
                out.insert(format!("coroutine:{}", self.path(*d)));
                for t2 in args.as_coroutine().upvar_tys().iter() {
                    self.drop_impls(t2, depth + 1, seen, out);
                }
            }
            ty::Param(p) => {
                out.insert(format!("param:{}", p.name));
            }
            ty::Dynamic(..) => {
                out.insert(format!("dyn:{}", t));
            }
            ty::Alias(..) => {
                out.insert(format!("alias:{}", t));
            }
            _ => {}
        }
    }

    fn rvalue(&self, body: &Body<'tcx>, env: TypingEnv<'tcx>, rv: &Rvalue<'tcx>) -> String {
        let mut o = Obj::new();
        match rv {
            Rvalue::Use(op, ..) => {
                o.s("k", "use").raw("ops", &jlist(&[self.operand(body, env, op)]));
            }
            Rvalue::Repeat(op, _) => {
                o.s("k", "repeat").raw("ops", &jlist(&[self.operand(body, env, op)]));
            }
            Rvalue::Ref(_, bk, p) => {
                let m = match bk {
                    BorrowKind::Shared => "shared",
                    BorrowKind::Fake(_) => "fake",
                    BorrowKind::Mut { .. } => "mut",
                };
                o.s("k", "ref").s("bk", m).raw("pl", &self.place(body, p));
            }
            Rvalue::ThreadLocalRef(d) => {
                o.s("k", "tlref").s("def", &self.path(*d));
            }
            Rvalue::RawPtr(k, p) => {
                o.s("k", "rawptr").s("bk", &format!("{:?}", k)).raw("pl", &self.place(body, p));
            }
            Rvalue::Cast(ck, op, t) => {
                o.s("k", "cast")
                    .s("ck", &format!("{:?}", ck))
                    .s("ty", &format!("{}", t))
                    .raw("ops", &jlist(&[self.operand(body, env, op)]));
            }
            Rvalue::BinaryOp(bop, ops) => {
                o.s("k", "binop").s("op", &format!("{:?}", bop)).raw(
                    "ops",
                    &jlist(&[self.operand(body, env, &ops.0), self.operand(body, env, &ops.1)]),
                );
            }
            Rvalue::UnaryOp(uop, op) => {
                o.s("k", "unop")
                    .s("op", &format!("{:?}", uop))
                    .raw("ops", &jlist(&[self.operand(body, env, op)]));
            }
            Rvalue::Discriminant(p) => {
                o.s("k", "discr").raw("pl", &self.place(body, p));
            }
            Rvalue::Aggregate(kind, ops) => {
                o.s("k", "aggr");
                match &**kind {
                    AggregateKind::Array(_) => {
                        o.s("ak", "array");
                    }
                    AggregateKind::Tuple => {
                        o.s("ak", "tuple");
                    }
                    AggregateKind::Adt(d, vidx, _args, _, _) => {
                        let adt = self.tcx.adt_def(*d);
                        let v = adt.variant(*vidx);
                        o.s("ak", "adt").s("adt", &self.path(*d)).s("variant", &v.name.to_string());
                        let names: Vec<String> = v.fields.iter().map(|f| esc(&f.name.to_string())).collect();
                        o.raw("fields", &jlist(&names));
                    }
                    AggregateKind::Closure(d, _) => {
                        o.s("ak", "closure").s("def", &self.path(*d));
                    }
                    AggregateKind::Coroutine(d, _) => {
                        o.s("ak", "coroutine").s("def", &self.path(*d));
                    }
                    AggregateKind::CoroutineClosure(d, _) => {
                        o.s("ak", "coroutine_closure").s("def", &self.path(*d));
                    }
                    AggregateKind::RawPtr(..) => {
                        o.s("ak", "rawptr");
                    }
                }
                let v: Vec<String> = ops.iter().map(|op| self.operand(body, env, op)).collect();
                o.raw("ops", &jlist(&v));
            }
            Rvalue::CopyForDeref(p) => {
                o.s("k", "copy_for_deref").raw("pl", &self.place(body, p));
            }
            other => {
                o.s("k", "other").s("v", &format!("{:?}", other));
            }
        }
        o.done()
    }

    fn block(&self, body: &Body<'tcx>, env: TypingEnv<'tcx>, idx: usize, bb: &BasicBlockData<'tcx>) -> String {
        let tcx = self.tcx;
        let mut stmts = vec![];
        for st in &bb.statements {
            match &st.kind {
                StatementKind::Assign(b) => {
                    let (pl, rv) = &**b;
                    let (_f, line, macros) = self.span_info(st.source_info.span);
                    let mut o = Obj::new();
                    o.s("k", "assign")
                        .raw("dst", &self.place(body, pl))
                        .raw("rv", &self.rvalue(body, env, rv))
                        .n("line", line as i128);
                    if !macros.is_empty() {
                        let m: Vec<String> = macros.iter().map(|x| esc(x)).collect();
                        o.raw("mac", &jlist(&m));
                    }
                    stmts.push(o.done());
                }
                StatementKind::SetDiscriminant { place, variant_index } => {
                    let mut o = Obj::new();
                    o.s("k", "setdiscr")
                        .raw("dst", &self.place(body, place))
                        .n("variant", variant_index.as_usize() as i128);
                    stmts.push(o.done());
                }
                _ => {}
            }
        }
        let term = bb.terminator();
        let (_f, line, macros) = self.span_info(term.source_info.span);
        let mut t = Obj::new();
        t.n("line", line as i128);
        if !macros.is_empty() {
            let m: Vec<String> = macros.iter().map(|x| esc(x)).collect();
            t.raw("mac", &jlist(&m));
        }
        let unwind_s = |u: &UnwindAction| -> String {
            match u {
                UnwindAction::Continue => "continue".to_string(),
                UnwindAction::Unreachable => "unreachable".to_string(),
                UnwindAction::Terminate(_) => "terminate".to_string(),
                UnwindAction::Cleanup(b) => format!("bb{}", b.as_usize()),
            }
        };
        match &term.kind {
            TerminatorKind::Goto { target } => {
                t.s("k", "goto").n("target", target.as_usize() as i128);
            }
            TerminatorKind::SwitchInt { discr, targets } => {
                t.s("k", "switch").raw("discr", &self.operand(body, env, discr));
                let mut arms = vec![];
                for (v, b) in targets.iter() {
                    arms.push(format!("[{},{}]", v, b.as_usize()));
                }
                t.raw("arms", &jlist(&arms));
                t.n("otherwise", targets.otherwise().as_usize() as i128);
            }
            TerminatorKind::UnwindResume => {
                t.s("k", "resume");
            }
            TerminatorKind::UnwindTerminate(_) => {
                t.s("k", "terminate");
            }
            TerminatorKind::Return => {
                t.s("k", "return");
            }
            TerminatorKind::Unreachable => {
                t.s("k", "unreachable");
            }
            TerminatorKind::Drop { place, target, unwind, .. } => {
                let pty = place.ty(&body.local_decls, tcx).ty;
                let mut seen = BTreeSet::new();
                let mut out = BTreeSet::new();
                self.drop_impls(pty, 0, &mut seen, &mut out);
                let v: Vec<String> = out.iter().map(|x| esc(x)).collect();
                t.s("k", "drop")
                    .raw("pl", &self.place(body, place))
                    .s("ty", &format!("{}", pty))
                    .raw("impls", &jlist(&v))
                    .n("target", target.as_usize() as i128)
                    .s("unwind", &unwind_s(unwind));
            }
            TerminatorKind::Call { func, args, destination, target, unwind, fn_span, .. } => {
                t.s("k", "call");
                let fty = func.ty(&body.local_decls, tcx);
                match fty.kind() {
                    ty::FnDef(d, gargs) => {
                        t.s("callee", &self.path(*d));
                        t.s("callee_full", &tcx.def_path_str_with_args(*d, gargs));
                        if let Some((r, rk, rf)) = self.resolve(env, *d, gargs) {
                            t.s("res", &r).s("res_kind", &rk).s("res_full", &rf);
                        }
                        // self type of the first generic arg, useful for trait calls
                        if let Some(t0) = gargs.types().next() {
                            t.s("self_ty", &format!("{}", t0));
                        }
                    }
                    _ => {
                        t.s("callee", "<indirect>");
                        t.s("fn_ty", &format!("{}", fty));
                        t.raw("func", &self.operand(body, env, func));
                    }
                }
                let v: Vec<String> = args.iter().map(|a| self.operand(body, env, &a.node)).collect();
                t.raw("args", &jlist(&v));
                t.raw("dst", &self.place(body, destination));
                match target {
                    Some(b) => {
                        t.n("target", b.as_usize() as i128);
                    }
                    None => {
                        t.raw("target", "null");
                    }
                }
                t.s("unwind", &unwind_s(unwind));
                let (_f2, l2, _m2) = self.span_info(*fn_span);
                t.n("fn_line", l2 as i128);
            }
            TerminatorKind::TailCall { .. } => {
                t.s("k", "tailcall");
            }
            TerminatorKind::Assert { cond, expected, msg, target, .. } => {
                let mk = format!("{:?}", msg);
                let kind = mk.split(|c: char| c == '(' || c == ' ' || c == '{').next().unwrap_or("").to_string();
                t.s("k", "assert")
                    .raw("cond", &self.operand(body, env, cond))
                    .b("expected", *expected)
                    .s("msg", &kind)
                    .n("target", target.as_usize() as i128);
            }
            TerminatorKind::Yield { value, resume, drop, .. } => {
                t.s("k", "yield")
                    .raw("value", &self.operand(body, env, value))
                    .n("target", resume.as_usize() as i128);
                if let Some(d) = drop {
                    t.n("drop", d.as_usize() as i128);
                }
            }
            TerminatorKind::CoroutineDrop => {
                t.s("k", "coroutine_drop");
            }
            TerminatorKind::FalseEdge { real_target, .. } => {
                t.s("k", "goto").n("target", real_target.as_usize() as i128);
            }
            TerminatorKind::FalseUnwind { real_target, .. } => {
                t.s("k", "goto").n("target", real_target.as_usize() as i128);
            }
            TerminatorKind::InlineAsm { .. } => {
                t.s("k", "asm");
            }
        }
        let mut o = Obj::new();
        o.n("id", idx as i128).b("cleanup", bb.is_cleanup).raw("stmts", &jlist(&stmts)).raw("term", &t.done());
        o.done()
    }

    fn body_facts(&self, def: LocalDefId, body: &Body<'tcx>, source: &str) -> String {
        self.body_facts2(def, body, source, None)
    }

    fn body_facts2(&self, def: LocalDefId, body: &Body<'tcx>, source: &str, promoted: Option<usize>) -> String {
        let tcx = self.tcx;
        let did = def.to_def_id();
        let env = TypingEnv::post_analysis(tcx, did);
        let mut o = Obj::new();
        if let Some(pi) = promoted {
            o.s("key", &format!("{}::promoted[{}]", self.path(did), pi));
            o.s("kind", "Promoted");
            o.s("mir", source);
            o.s("promoted_of", &self.path(did));
            let mut locals = vec![];
            for ld in body.local_decls.iter() {
                let mut l = Obj::new();
                l.s("ty", &format!("{}", ld.ty));
                locals.push(l.done());
            }
            o.raw("locals", &jlist(&locals));
            o.n("arg_count", 0);
            let (file, line, _m) = self.span_info(body.span);
            o.s("file", &file).n("line", line as i128);
            let mut blocks = vec![];
            for (i, bb) in body.basic_blocks.iter().enumerate() {
                blocks.push(self.block(body, env, i, bb));
            }
            o.raw("blocks", &jlist(&blocks));
            return o.done();
        }
        o.s("key", &self.path(did));
        o.s("kind", &format!("{:?}", tcx.def_kind(did)));
        o.s("mir", source);
        let (file, line, macros) = self.span_info(body.span);
        o.s("file", &file).n("line", line as i128);
        if !macros.is_empty() {
            let m: Vec<String> = macros.iter().map(|x| esc(x)).collect();
            o.raw("mac", &jlist(&m));
        }
        o.n("arg_count", body.arg_count as i128);
        if tcx.is_closure_like(did) {
            o.s("parent", &self.path(tcx.typeck_root_def_id(did)));
            o.s("lex_parent", &self.path(tcx.parent(did)));
        }
        if let Some(ck) = tcx.coroutine_kind(did) {
            o.s("coroutine", &format!("{:?}", ck));
        }
        if matches!(tcx.def_kind(did), DefKind::Fn | DefKind::AssocFn) {
            let vis = tcx.visibility(did);
            o.b("pub", vis.is_public());
            o.b("reachable", tcx.effective_visibilities(()).is_reachable(def));
            if let Some(ai) = tcx.opt_associated_item(did) {
                let cont = ai.container_id(tcx);
                o.s("container", &self.path(cont));
                if matches!(tcx.def_kind(cont), DefKind::Impl { .. }) {
                    if let Some(tr) = tcx.impl_opt_trait_ref(cont) {
                        let tr = tr.instantiate_identity().skip_norm_wip();
                        o.s("impl_trait", &self.path(tr.def_id));
                        o.s("impl_self", &format!("{}", tr.self_ty()));
                    } else {
                        let st = tcx.type_of(cont).instantiate_identity().skip_norm_wip();
                        o.s("impl_self", &format!("{}", st));
                    }
                    if let ty::Adt(a, _) = tcx.type_of(cont).instantiate_identity().skip_norm_wip().kind() {
                        o.s("impl_adt", &self.path(a.did()));
                    }
                }
                o.s("name", &ai.name().to_string());
            }
        }
        // locals
        let mut names: Vec<Option<String>> = vec![None; body.local_decls.len()];
        for vdi in &body.var_debug_info {
            if let rustc_middle::mir::VarDebugInfoContents::Place(p) = &vdi.value {
                if p.projection.is_empty() {
                    names[p.local.as_usize()] = Some(vdi.name.to_string());
                }
            }
        }
        let mut locals = vec![];
        for (i, ld) in body.local_decls.iter().enumerate() {
            let mut l = Obj::new();
            l.s("ty", &format!("{}", ld.ty));
            if let Some(n) = &names[i] {
                l.s("name", n);
            }
            locals.push(l.done());
        }
        o.raw("locals", &jlist(&locals));
        // upvar debug names for closures (var_debug_info with projections on _1)
        let mut upv = vec![];
        for vdi in &body.var_debug_info {
            if let rustc_middle::mir::VarDebugInfoContents::Place(p) = &vdi.value {
                if !p.projection.is_empty() && p.local.as_usize() == 1 {
                    let mut u = Obj::new();
                    u.s("name", &vdi.name.to_string()).raw("pl", &self.place(body, p));
                    upv.push(u.done());
                }
            }
        }
        if !upv.is_empty() {
            o.raw("upvar_names", &jlist(&upv));
        }
        let mut blocks = vec![];
        for (i, bb) in body.basic_blocks.iter().enumerate() {
            blocks.push(self.block(body, env, i, bb));
        }
        o.raw("blocks", &jlist(&blocks));
        o.done()
    }

    fn run(&self) -> String {
        let tcx = self.tcx;
        let mut adts = vec![];
        let mut items = vec![];
        let mut impls = vec![];
        let mut fns = vec![];
        for def in tcx.hir_crate_items(()).definitions() {
            let did = def.to_def_id();
            match tcx.def_kind(did) {
                DefKind::Struct | DefKind::Enum | DefKind::Union => {
                    let adt = tcx.adt_def(did);
                    let mut o = Obj::new();
                    o.s("key", &self.path(did));
                    o.s("kind", &format!("{:?}", tcx.def_kind(did)));
                    let mut vs = vec![];
                    for v in adt.variants().iter() {
                        let mut vo = Obj::new();
                        vo.s("name", &v.name.to_string());
                        let mut fs = vec![];
                        for f in v.fields.iter() {
                            let mut fo = Obj::new();
                            let fty = tcx.type_of(f.did).instantiate_identity().skip_norm_wip();
                            fo.s("name", &f.name.to_string()).s("ty", &format!("{}", fty));
                            fo.b("pub", f.vis.is_public());
                            fs.push(fo.done());
                        }
                        vo.raw("fields", &jlist(&fs));
                        vs.push(vo.done());
                    }
                    o.raw("variants", &jlist(&vs));
                    if let Some(d) = tcx.adt_destructor(did) {
                        o.s("drop_impl", &self.path(d.did));
                    }
                    let (file, line, _m) = self.span_info(tcx.def_span(did));
                    o.s("file", &file).n("line", line as i128);
                    adts.push(o.done());
                }
                DefKind::Static { .. } | DefKind::Const { .. } | DefKind::AssocConst { .. } => {
                    let t = tcx.type_of(did).instantiate_identity().skip_norm_wip();
                    let mut o = Obj::new();
                    o.s("key", &self.path(did));
                    o.s("kind", &format!("{:?}", tcx.def_kind(did)).split(|c: char| c == ' ' || c == '{').next().unwrap_or(""));
                    o.s("ty", &format!("{}", t));
                    let env = TypingEnv::post_analysis(tcx, did);
                    let freeze = std::panic::catch_unwind(std::panic::AssertUnwindSafe(|| t.is_freeze(tcx, env))).unwrap_or(true);
                    o.b("freeze", freeze);
                    if let ty::Adt(_, args) = t.kind() {
                        let mut af = vec![];
                        for a in args.types() {
                            let fz = std::panic::catch_unwind(std::panic::AssertUnwindSafe(|| a.is_freeze(tcx, env))).unwrap_or(true);
                            af.push(if fz { "true".to_string() } else { "false".to_string() });
                        }
                        o.raw("args_freeze", &jlist(&af));
                    }
                    if matches!(tcx.def_kind(did), DefKind::Static { .. }) {
                        o.b("thread_local_attr", tcx.is_thread_local_static(did));
                        o.b("mutable", tcx.is_mutable_static(did));
                    }
                    let (file, line, macros) = self.span_info(tcx.def_span(did));
                    o.s("file", &file).n("line", line as i128);
                    if !macros.is_empty() {
                        let m: Vec<String> = macros.iter().map(|x| esc(x)).collect();
                        o.raw("mac", &jlist(&m));
                    }
                    o.s("parent", &self.path(tcx.parent(did)));
                    items.push(o.done());
                }
                DefKind::Impl { .. } => {
                    let mut o = Obj::new();
                    o.s("key", &self.path(did));
                    let st = tcx.type_of(did).instantiate_identity().skip_norm_wip();
                    o.s("self_ty", &format!("{}", st));
                    if let ty::Adt(a, _) = st.kind() {
                        o.s("self_adt", &self.path(a.did()));
                    }
                    if let Some(tr) = tcx.impl_opt_trait_ref(did) {
                        let tr = tr.instantiate_identity().skip_norm_wip();
                        o.s("trait", &self.path(tr.def_id));
                        o.s("trait_full", &format!("{}", tr));
                    }
                    let mut ms = vec![];
                    for m in tcx.associated_item_def_ids(did) {
                        let mut mo = Obj::new();
                        mo.s("name", &tcx.item_name(*m).to_string()).s("key", &self.path(*m));
                        mo.s("kind", &format!("{:?}", tcx.def_kind(*m)).split(|c: char| c == ' ' || c == '{').next().unwrap_or(""));
                        ms.push(mo.done());
                    }
                    o.raw("items", &jlist(&ms));
                    let (file, line, macros) = self.span_info(tcx.def_span(did));
                    o.s("file", &file).n("line", line as i128);
                    if !macros.is_empty() {
                        let m: Vec<String> = macros.iter().map(|x| esc(x)).collect();
                        o.raw("mac", &jlist(&m));
                    }
                    impls.push(o.done());
                }
                DefKind::Fn | DefKind::AssocFn => {
                    let mut o = Obj::new();
                    o.s("key", &self.path(did));
                    let sig = tcx.fn_sig(did).instantiate_identity().skip_norm_wip().skip_binder();
                    let ins: Vec<String> = sig.inputs().iter().map(|t| esc(&format!("{}", t))).collect();
                    o.raw("inputs", &jlist(&ins));
                    o.s("output", &format!("{}", sig.output()));
                    o.b("pub", tcx.visibility(did).is_public());
                    o.b("reachable", tcx.effective_visibilities(()).is_reachable(def));
                    o.b("has_body", tcx.hir_maybe_body_owned_by(def).is_some());
                    fns.push(o.done());
                }
                _ => {}
            }
        }
        let mut bodies = vec![];
        for def in tcx.hir_body_owners() {
            let did = def.to_def_id();
            let dk = tcx.def_kind(did);
            match dk {
                DefKind::Fn | DefKind::AssocFn | DefKind::Closure => {
                    for (pi, pb) in tcx.promoted_mir(did).iter().enumerate() {
                        bodies.push(self.body_facts2(def, pb, "promoted", Some(pi)));
                    }
                    if tcx.is_coroutine(did) {
                        // force the (overridden) query so that the snapshot exists
                        let _ = tcx.mir_drops_elaborated_and_const_checked(def);
                        let key = self.path(did);
                        let snaps = SNAPSHOTS.lock().unwrap();
                        if let Some((_, v)) = snaps.iter().find(|(k, _)| *k == key) {
                            bodies.push(v.clone());
                            continue;
                        }
                    }
                    let st = tcx.mir_drops_elaborated_and_const_checked(def);
                    if !st.is_stolen() {
                        let b = st.borrow();
                        bodies.push(self.body_facts(def, &b, "elaborated"));
                    } else {
                        let b = tcx.optimized_mir(did);
                        bodies.push(self.body_facts(def, b, "optimized"));
                    }
                }
                DefKind::Const { .. } | DefKind::AssocConst { .. } | DefKind::Static { .. } => {
                    if tcx.is_trivial_const(did) {
                        continue;
                    }
                    let st = tcx.mir_drops_elaborated_and_const_checked(def);
                    if !st.is_stolen() {
                        let b = st.borrow();
                        bodies.push(self.body_facts(def, &b, "elaborated"));
                    } else {
                        let b = tcx.mir_for_ctfe(did);
                        bodies.push(self.body_facts(def, b, "ctfe"));
                    }
                }
                _ => {}
            }
        }
        let mut o = Obj::new();
        o.s("crate", &tcx.crate_name(rustc_hir::def_id::LOCAL_CRATE).to_string());
        o.raw("adts", &jlist(&adts));
        o.raw("items", &jlist(&items));
        o.raw("impls", &jlist(&impls));
        o.raw("fns", &jlist(&fns));
        o.raw("bodies", &jlist(&bodies));
        o.done()
    }
}

struct FactsCallbacks {
    out_dir: String,
    args_digest: String,
    features: Vec<String>,
    is_test: bool,
    crate_types: Vec<String>,
}

impl Callbacks for FactsCallbacks {
    fn config(&mut self, config: &mut rustc_interface::interface::Config) {
        config.override_queries = Some(|_sess, providers| {
            let _ = ORIG_PROVIDER.set(providers.queries.mir_drops_elaborated_and_const_checked);
            providers.queries.mir_drops_elaborated_and_const_checked = my_mir_drops_elaborated;
        });
    }

    fn after_analysis<'tcx>(&mut self, _c: &rustc_interface::interface::Compiler, tcx: TyCtxt<'tcx>) -> Compilation {
        let cx = Cx { tcx };
        let facts = with_resolve_crate_name!(with_no_trimmed_paths!(with_no_visible_paths!(cx.run())));
        let crate_name = tcx.crate_name(rustc_hir::def_id::LOCAL_CRATE).to_string();
        let mut meta = Obj::new();
        let f: Vec<String> = self.features.iter().map(|x| esc(x)).collect();
        let ct: Vec<String> = self.crate_types.iter().map(|x| esc(x)).collect();
        meta.raw("features", &jlist(&f)).b("is_test", self.is_test).raw("crate_types", &jlist(&ct));
        meta.s("digest", &self.args_digest);
        // splice meta into the facts object
        let mut out = String::with_capacity(facts.len() + 256);
        out.push_str("{\"meta\":");
        out.push_str(&meta.done());
        out.push(',');
        out.push_str(&facts[1..]);
        let fname = format!("{}/{}-{}.json", self.out_dir, crate_name, self.args_digest);
        let tmp = format!("{}.tmp{}", fname, std::process::id());
        std::fs::write(&tmp, out).expect("write facts");
        std::fs::rename(&tmp, &fname).expect("rename facts");
        Compilation::Continue
    }
}

struct Plain;
impl Callbacks for Plain {}

// ---- pre-state-machine snapshots of coroutine bodies ---------------------------------------
// `mir_drops_elaborated_and_const_checked` also runs the coroutine StateTransform.  For async
// bodies we therefore clone `mir_promoted` just before the original provider steals it, run the
// same public pipeline on the clone with `coroutine = None` (which makes StateTransform a no-op)
// and keep the resulting facts (a String) until after_analysis.
static ORIG_PROVIDER: std::sync::OnceLock<
    for<'tcx> fn(TyCtxt<'tcx>, LocalDefId) -> &'tcx rustc_data_structures::steal::Steal<Body<'tcx>>,
> = std::sync::OnceLock::new();
static SNAPSHOTS: std::sync::Mutex<Vec<(String, String)>> = std::sync::Mutex::new(Vec::new());

fn my_mir_drops_elaborated<'tcx>(
    tcx: TyCtxt<'tcx>,
    def: LocalDefId,
) -> &'tcx rustc_data_structures::steal::Steal<Body<'tcx>> {
    if tcx.is_coroutine(def.to_def_id()) && std::env::var("VERIF_FACTS_DIR").is_ok() {
        // prerequisites the original provider forces before stealing
        tcx.ensure_done().mir_coroutine_witnesses(def);
        if !tcx.is_synthetic_mir(def) {
            let _ = tcx.mir_borrowck(tcx.typeck_root_def_id_local(def));
        }
        tcx.ensure_done().check_liveness(def);
        let (promoted, _) = tcx.mir_promoted(def);
        if !promoted.is_stolen() {
            let mut snap = promoted.borrow().clone();
            snap.coroutine = None;
            let r = std::panic::catch_unwind(std::panic::AssertUnwindSafe(|| {
                rustc_mir_transform::run_analysis_to_runtime_passes(tcx, &mut snap);
                let cx = Cx { tcx };
                with_resolve_crate_name!(with_no_trimmed_paths!(with_no_visible_paths!((
                    cx.path(def.to_def_id()),
                    cx.body_facts(def, &snap, "pre_state_transform")
                ))))
            }));
            if let Ok((k, v)) = r {
                SNAPSHOTS.lock().unwrap().push((k, v));
            }
        }
    }
    (ORIG_PROVIDER.get().unwrap())(tcx, def)
}

fn fnv(s: &str) -> u64 {
    let mut h: u64 = 0xcbf29ce484222325;
    for b in s.bytes() {
        h ^= b as u64;
        h = h.wrapping_mul(0x100000001b3);
    }
    h
}

fn main() {
    let argv: Vec<String> = std::env::args().collect();
    // wrapper convention: argv[1] is the real rustc path
    let mut args: Vec<String> = vec![argv[0].clone()];
    if argv.len() > 1 {
        let first = &argv[1];
        let skip = if first.ends_with("rustc") || first.contains("/rustc") { 2 } else { 1 };
        args.extend(argv[skip..].iter().cloned());
    }
    let out_dir = std::env::var("VERIF_FACTS_DIR").ok();
    let is_probe = args.iter().any(|a| a.starts_with("--print") || a == "-vV" || a == "-V" || a == "--version")
        || args.iter().any(|a| a == "-")
        || !args.iter().any(|a| a.ends_with(".rs"));
    if out_dir.is_none() || is_probe {
        rustc_driver::run_compiler(&args, &mut Plain);
        return;
    }
    args.push("--cap-lints=allow".to_string());
    // keep async bodies in source shape (no generator state machine); only for workspace crates
    args.push("-Zmir-enable-passes=-KnownPanicsLint".to_string());
    let mut features = vec![];
    let mut is_test = false;
    let mut crate_types = vec![];
    let mut it = args.iter().peekable();
    while let Some(a) = it.next() {
        if a == "--cfg" {
            if let Some(v) = it.peek() {
                if let Some(f) = v.strip_prefix("feature=") {
                    features.push(f.trim_matches('"').to_string());
                }
            }
        } else if a == "--test" {
            is_test = true;
        } else if a == "--crate-type" {
            if let Some(v) = it.peek() {
                crate_types.push(v.to_string());
            }
        }
    }
    features.sort();
    let digest_src: String = args
        .iter()
        .filter(|a| !a.contains("metadata=") && !a.contains("extra-filename") && !a.starts_with("--out-dir") && !a.contains("/deps") && !a.contains("incremental"))
        .cloned()
        .collect::<Vec<_>>()
        .join(" ");
    let digest = format!("{:016x}", fnv(&digest_src));
    let mut cb = FactsCallbacks { out_dir: out_dir.unwrap(), args_digest: digest, features, is_test, crate_types };
    rustc_driver::run_compiler(&args, &mut cb);
}
