"""Flow- and field-sensitive backward slice (K4 guard-dependence).

Differences to facts.Slicer: a definition is only followed when it can reach the use in the CFG; memory is keyed by
(local, first field) so that a read of `self.a` does not depend on writes of `self.b`; a call that receives `&mut x.f` is a
definition of (x, f), one that receives `&mut *x` of (x, *).  Control dependences of every followed definition are included.
"""
from collections import defaultdict, deque

from .facts import Site, norm, operand_local, control_deps


def key_of_place(pl):
    for p in pl.get("p", []):
        if p.startswith("F:"):
            return (pl["l"], norm(p[2:]))
        if p.startswith("U:") or p.startswith("T:"):
            return (pl["l"], p)
    return (pl["l"], None)


class FlowSlicer:
    def __init__(self, body, control=True):
        self.b = body
        self.control = control
        self.defs = defaultdict(list)       # key -> [(site, stmt)]
        self.by_local = defaultdict(set)    # local -> keys with that base
        self.refs = defaultdict(set)        # temp local -> keys it (mutably) borrows
        self._cd = None
        self._reach = {}
        b = body
        for s in b.sites():
            st = b.at(s)
            k = st.get("k")
            if k == "assign":
                self._add(key_of_place(st["dst"]), s, st)
                rv = st["rv"]
                if rv["k"] in ("ref", "rawptr") and rv.get("bk") in ("mut", "Mut") and not st["dst"].get("p"):
                    self.refs[st["dst"]["l"]].add(key_of_place(rv["pl"]))
            elif k == "call":
                self._add(key_of_place(st["dst"]), s, st)
        changed = True
        while changed:
            changed = False
            for s, st in b.assigns():
                if st["dst"].get("p"):
                    continue
                rv = st["rv"]
                src = None
                if rv["k"] in ("use", "cast"):
                    src = operand_local(rv["ops"][0])
                elif rv["k"] in ("ref", "rawptr") and rv["pl"].get("p") == ["*"]:
                    src = rv["pl"]["l"]       # reborrow `&mut *t`
                if src is not None and self.refs.get(src):
                    d = st["dst"]["l"]
                    n = len(self.refs[d])
                    self.refs[d] |= self.refs[src]
                    if len(self.refs[d]) != n:
                        changed = True
        for s, t in b.calls():
            for a in t.get("args", []):
                l = operand_local(a)
                if l is not None:
                    for key in self.refs.get(l, ()):
                        self._add(key, s, t)

    def _add(self, key, s, st):
        self.defs[key].append((s, st))
        self.by_local[key[0]].add(key)

    # -- CFG reachability between sites --------------------------------------------------------
    def _block_reach(self, bb):
        r = self._reach.get(bb)
        if r is None:
            seen = set()
            dq = deque(self.b.succ[bb])
            while dq:
                x = dq.popleft()
                if x in seen:
                    continue
                seen.add(x)
                dq.extend(self.b.succ[x])
            r = self._reach[bb] = seen
        return r

    def reaches(self, d, u):
        if d.bb == u.bb and d.idx < u.idx:
            return True
        return u.bb in self._block_reach(d.bb)

    # -- labels ---------------------------------------------------------------------------------
    def _keys_read(self, pl):
        key = key_of_place(pl)
        keys = {key, (pl["l"], None)}
        if key[1] is None:
            keys |= self.by_local.get(pl["l"], set())
        for p in pl.get("p", []):
            if p.startswith("I:_"):
                keys.add((int(p[3:]), None))
        return keys

    def _stmt_inputs(self, st):
        """(labels, places read) of a defining statement."""
        b = self.b
        labels, places = set(), []
        k = st.get("k")
        if k == "assign":
            rv = st["rv"]
            for op in rv.get("ops", []):
                self._op(op, labels, places)
            if "pl" in rv:
                places.append(rv["pl"])
            if rv["k"] == "aggr" and rv.get("ak") in ("closure", "coroutine"):
                labels.add("closure:" + norm(rv["def"]))
        elif k == "call":
            for c in b.callees_of_call(st):
                labels.add("call:" + c)
            for a in st.get("args", []):
                self._op(a, labels, places)
            if st.get("func"):
                self._op(st["func"], labels, places)
        return labels, places

    def _op(self, op, labels, places):
        if op.get("k") in ("copy", "move"):
            places.append(op["pl"])
        elif op.get("k") == "const":
            if "ev" in op:
                labels.add("const:%s" % op["ev"])
            for it in self.b.prog.const_items(op):
                labels.add("item:" + it)

    def _place_labels(self, pl, labels):
        for p in pl.get("p", []):
            if p.startswith("F:"):
                labels.add("field:" + norm(p[2:]))
            elif p.startswith("U:"):
                labels.add("upvar:" + p[2:].rsplit("#", 1)[-1])      # captured variable number of this closure
        if 1 <= pl["l"] <= self.b.arg_count:
            labels.add("arg:%d" % pl["l"])

    def labels(self, places, use_site, labels=None):
        """Labels the values of `places`, read at use_site, may depend on."""
        labels = set() if labels is None else labels
        seen = set()
        dq = deque()
        for pl in places:
            self._place_labels(pl, labels)
            for key in self._keys_read(pl):
                dq.append((key, use_site))
        while dq:
            key, u = dq.popleft()
            for d, st in self.defs.get(key, ()):
                if (d, key) in seen:
                    continue
                if d != u and not self.reaches(d, u):
                    continue
                if d == u:
                    continue
                seen.add((d, key))
                lb, pls = self._stmt_inputs(st)
                labels |= lb
                for pl in pls:
                    self._place_labels(pl, labels)
                    for k2 in self._keys_read(pl):
                        dq.append((k2, d))
                if self.control:
                    for sw in self.cd.get(d.bb, ()):
                        t = self.b.term(sw)
                        if t["k"] == "switch" and t["discr"].get("k") in ("copy", "move"):
                            pl = t["discr"]["pl"]
                            self._place_labels(pl, labels)
                            for k2 in self._keys_read(pl):
                                dq.append((k2, self.b.term_site(sw)))
        return labels

    @property
    def cd(self):
        if self._cd is None:
            self._cd = control_deps(self.b)
        return self._cd

    def operand_labels(self, op, use_site):
        labels, places = set(), []
        self._op(op, labels, places)
        return self.labels(places, use_site, labels)

    def guard_labels(self, site):
        """Labels of all branch conditions the execution of `site` is control dependent on."""
        labels = set()
        for sw in self.cd.get(site.bb, ()):
            t = self.b.term(sw)
            if t["k"] == "switch":
                labels |= self.operand_labels(t["discr"], self.b.term_site(sw))
        return labels

    def guard_fields(self, site):
        """Discriminant subjects (last field of the place whose discriminant / value is switched on) controlling `site`."""
        from . import kinds
        from .facts import Slicer
        sl = Slicer(self.b, alias_defs=False)
        out = set()
        for sw in self.cd.get(site.bb, ()):
            t = self.b.term(sw)
            if t["k"] == "switch":
                f = kinds.discr_subject_field(self.b, sl, t["discr"])
                if f:
                    out.add(f)
        return out


def resolve_upvars(prog, body, labels, depth=0):
    """Replace `upvar:<n>` labels of a closure body by the labels of the captured value where the closure is built (one level per
    nesting, up to three): a value computed in the enclosing function and captured is what the closure reads."""
    ups = {l for l in labels if l.startswith("upvar:")}
    if not ups or not body.parent or depth > 3:
        return set(labels)
    out = set(labels) - ups
    for pb in prog.all_bodies({body.crate}):
        if pb.nkey != body.parent and pb.parent != body.parent:
            continue
        if pb is body:
            continue
        for s, st in pb.assigns():
            rv = st["rv"]
            if rv.get("k") == "aggr" and rv.get("ak") == "closure" and norm(rv.get("def", "")) == body.nkey:
                fs = FlowSlicer(pb, control=False)
                for u in ups:
                    i = int(u.split(":")[1])
                    if i < len(rv.get("ops", [])):
                        out |= resolve_upvars(prog, pb, fs.operand_labels(rv["ops"][i], s), depth + 1)
    return out


def expand_fn_labels(prog, labels, depth=2):
    """Like expand_closure_labels, but also looks into workspace functions named in `call:` labels (a predicate moved into a helper still
    reads what it read), to the given call depth, including the closures those functions build."""
    out = set(labels)
    frontier = {l.split(":", 1)[1] for l in labels if l.startswith(("call:", "closure:"))}
    seen = set()
    for _ in range(depth + 1):
        nxt = set()
        for k in frontier:
            if k in seen:
                continue
            seen.add(k)
            cb = prog.get(k)
            if cb is None:
                continue
            for fb in prog.with_closures(cb):
                for c in prog.callgraph.get(fb.nkey, ()):
                    out.add("call:" + c)
                    nxt.add(c)
                for s in fb.sites():
                    for pl in fb.places_read(fb.at(s)):
                        for p in pl.get("p", []):
                            if p.startswith("F:"):
                                out.add("field:" + norm(p[2:]))
        frontier = nxt
    return out


def expand_closure_labels(prog, labels):
    """Add callees and fields read by closures named in `call:`/`closure:` labels (a closure runs where it is passed)."""
    out = set(labels)
    for l in list(labels):
        if l.startswith("call:") or l.startswith("closure:"):
            cb = prog.get(l.split(":", 1)[1])
            if cb is not None and cb.parent:
                out |= {"call:" + c for c in prog.callgraph.get(cb.nkey, ())}
                for s in cb.sites():
                    st = cb.at(s)
                    for pl in cb.places_read(st):
                        for p in pl.get("p", []):
                            if p.startswith("F:"):
                                out.add("field:" + norm(p[2:]))
    return out
