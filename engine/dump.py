"""debug helper: python3 -m engine.dump <facts_dir> <nkey-regex>"""
import sys
from .facts import Program, place_str

def opstr(o):
    if 'pl' in o:
        return ('mv ' if o['k']=='move' else '') + place_str(o['pl'])
    return o.get('fn') or o.get('closure') or o.get('v')

def dump(b):
    print('==', b.key, b.loc())
    for i,l in enumerate(b.locals):
        if l.get('name'): print('   _%d: %s = %s' % (i, l['name'], l['ty']))
    for bb in b.blocks:
        if bb.get('cleanup'): continue
        for st in bb['stmts']:
            if st['k']!='assign': continue
            rv=st['rv']
            extra=''
            if rv['k']=='aggr': extra=rv.get('adt','')+'::'+rv.get('variant','') if rv.get('ak')=='adt' else rv.get('ak')+':'+rv.get('def','')
            print('  bb%d %s = %s %s %s %s %s' % (bb['id'], place_str(st['dst']), rv['k'], rv.get('op',rv.get('bk','')), [opstr(o) for o in rv.get('ops',[])], place_str(rv['pl']) if 'pl' in rv else '', extra), ('  [mac %s]'%st['mac'][-1]) if st.get('mac') else '')
        t=bb['term']
        k=t['k']
        if k=='call':
            print('  bb%d CALL %s = %s(%s) -> %s%s' % (bb['id'], place_str(t['dst']), t.get('res_full') or t.get('callee_full') or t.get('callee'), ', '.join(str(opstr(a)) for a in t['args']), t.get('target'), ('  [mac %s]'%t['mac'][-1]) if t.get('mac') else ''))
        elif k=='switch':
            print('  bb%d SWITCH %s arms=%s else=%s' % (bb['id'], opstr(t['discr']), t['arms'], t['otherwise']))
        elif k=='drop':
            print('  bb%d DROP %s : %s impls=%s -> %s' % (bb['id'], place_str(t['pl']), t['ty'], t['impls'], t['target']))
        elif k=='assert':
            print('  bb%d ASSERT %s %s==%s -> %s' % (bb['id'], t['msg'], opstr(t['cond']), t['expected'], t['target']))
        else:
            print('  bb%d %s -> %s' % (bb['id'], k.upper(), t.get('target')))

if __name__=='__main__':
    import glob, os
    d=sys.argv[1]
    if not os.path.isdir(d):
        from . import extract
        d=extract.facts_dir(d)        # the facts of VERIF_REPO's (default /repo's) current tree
    p=Program(d)
    for b in p.find(sys.argv[2]):
        dump(b)
