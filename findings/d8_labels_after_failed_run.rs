use shuttle::current::{get_label_for_task, me, set_label_for_task};
use shuttle::scheduler::DfsScheduler;
use shuttle::{Config, Runner};

#[derive(Clone, Debug, PartialEq)]
struct Marker(u32);

fn cfg() -> Config {
    let mut c = Config::new();
    c.failure_persistence = shuttle::FailurePersistence::None;
    c
}

fn main() {
    // run 1: sets a label on the main task and fails
    let r = std::panic::catch_unwind(|| {
        Runner::new(DfsScheduler::new(None, false), cfg()).run(|| {
            set_label_for_task(me(), Marker(7));
            panic!("run 1 fails on purpose");
        });
    });
    assert!(r.is_err());
    // run 2 (same OS thread): a fresh run must start with empty labels
    let seen = std::sync::Arc::new(std::sync::Mutex::new(None));
    let s2 = seen.clone();
    Runner::new(DfsScheduler::new(None, false), cfg()).run(move || {
        *s2.lock().unwrap() = get_label_for_task::<Marker>(me());
    });
    let v = seen.lock().unwrap().clone();
    println!("label seen by the main task of run 2: {:?}", v);
    if v.is_some() {
        println!("LEAK: labels of a failed run survive into the next run on the same thread");
        std::process::exit(1);
    }
    println!("ok: run 2 started with empty labels");
}
