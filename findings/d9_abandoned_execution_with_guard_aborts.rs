use shuttle::scheduler::RandomScheduler;
use shuttle::sync::Mutex;
use shuttle::{thread, Config, MaxSteps, Runner};
use std::sync::Arc;

fn main() {
    let mut c = Config::new();
    c.max_steps = MaxSteps::ContinueAfter(20);
    let n = Runner::new(RandomScheduler::new_from_seed(1, 50), c).run(|| {
        let m = Arc::new(Mutex::new(0u32));
        let m2 = m.clone();
        let t = thread::spawn(move || {
            let mut g = m2.lock().unwrap();      // guard lives on this task's stack while it spins
            loop {
                *g += 1;
                thread::yield_now();
            }
        });
        let _ = t;
        loop {
            thread::yield_now();
        }
    });
    println!("run returned after {n} executions (every one abandoned at the step bound)");
}
