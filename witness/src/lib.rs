//! K10 — type-level witnesses: each `compile_fail,E0xxx` doctest is paired with a compiling twin that differs only in the
//! offending line, so that a witness whose paths are merely wrong (and therefore also "fails to compile") is detected.
//! Run with `cargo +nightly test --doc --offline` (the error code is only honoured on nightly).

/// W2 (C07) — a thread's result is delivered at most once: `JoinHandle::join` consumes the handle.
/// ```compile_fail,E0382
/// fn f() {
///     let h = shuttle::thread::spawn(|| 1u32);
///     let _a = h.join();
///     let _b = h.join(); // second join of a moved handle
/// }
/// ```
/// ```no_run
/// fn f() {
///     let h = shuttle::thread::spawn(|| 1u32);
///     let _a = h.join();
/// }
/// ```
pub struct W2JoinConsumesHandle;

/// W3 (C02/C04) — `Mutex::get_mut` needs exclusive access, so it cannot race with a live guard (which is why it needs no
/// scheduling point).
/// ```compile_fail,E0502
/// fn f() {
///     let mut m = shuttle::sync::Mutex::new(0u32);
///     let g = m.lock().unwrap();
///     let _r = m.get_mut(); // mutable borrow while the guard borrows `m`
///     drop(g);
/// }
/// ```
/// ```no_run
/// fn f() {
///     let mut m = shuttle::sync::Mutex::new(0u32);
///     let g = m.lock().unwrap();
///     drop(g);
///     let _r = m.get_mut();
/// }
/// ```
pub struct W3GetMutIsExclusive;

/// W4 (C08) — a scheduler only gets shared references to tasks: it can read ids but cannot change task state.
/// ```compile_fail,E0596
/// fn f(t: &shuttle::scheduler::Task) {
///     t.block(true); // needs &mut Task
/// }
/// ```
/// ```no_run
/// fn f(t: &shuttle::scheduler::Task) {
///     let _ = t.id();
/// }
/// ```
pub struct W4SchedulerCannotMutateTasks;

/// W5 (C17) — the output of a spawned future is delivered at most once: awaiting consumes the JoinHandle.
/// ```compile_fail,E0382
/// async fn f() {
///     let h = shuttle::future::spawn(async { 1u32 });
///     let _a = h.await;
///     let _b = h.await; // use of moved value
/// }
/// ```
/// ```no_run
/// async fn f() {
///     let h = shuttle::future::spawn(async { 1u32 });
///     let _a = h.await;
/// }
/// ```
pub struct W5AwaitConsumesHandle;

/// W6 (C20/C01) — Shuttle's `ThreadRng` cannot be seeded by the program: all of its randomness comes from the scheduler.
/// ```compile_fail,E0599
/// fn f() {
///     use rand::SeedableRng;
///     let _r = shuttle::rand::rngs::ThreadRng::seed_from_u64(1);
/// }
/// ```
/// ```no_run
/// fn f() {
///     use rand::RngCore;
///     let _x = shuttle::rand::thread_rng().next_u64();
/// }
/// ```
pub struct W6ThreadRngNotSeedable;
