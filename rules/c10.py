"""C10 — random schedulers: determinism by construction (K1), per-iteration reproducibility (dataflow), unbiased by
construction (K8).  R1 also runs over PCT/DFS/RoundRobin (the determinism clause of C11/C09)."""
import re

from engine import kinds
from engine.facts import Site, Slicer, norm, operand_local, control_deps, last_field
from engine.slicing import FlowSlicer
from rules.c01 import scheduler_impls, impl_method, WRAPPERS, DENY, HASHIT, ALLOW_HASHIT, REINIT, hash_iteration_allowed

CRATES = {"shuttle_engine", "shuttle_schedulers"}
EXPLANATION = (
    "Static decision of structural clauses of C10. (R1) inside new_execution/next_task/next_u64 of every concrete scheduler "
    "(Random, URW, PCT, DFS, RoundRobin, Replay) and their in-crate callees there is no call from the ambient-nondeterminism "
    "deny-list and no un-tabled iteration over a default-hasher collection; OsRng appears only in `new`, the environment only "
    "through seed_from_env in new_from_seed (plus the write-only SHUTTLE_ALWAYS_PERSIST_SEED). (R2) the seed returned in the "
    "Schedule, the seed the choice RNG is re-seeded with and the seed the data source re-initialised itself with are one value; "
    "check_random_with_seed passes its seed unchanged to RandomScheduler::new_from_seed; the failing-seed drop guard is updated "
    "with the same value. (R3) RandomScheduler::next_task calls SliceRandom::choose on the `runnable` parameter itself with "
    "self.rng; URW's estimating mode likewise; URW's weighted mode calls choose_weighted on `runnable` and every decrement of "
    "task_event_counts is clamped with max(1).")
NOT_DECIDED = "statistical uniformity of `choose`, eventual coverage of all schedules (trusted to rand)"
ASSUMPTIONS = ["rand::seq::SliceRandom::choose is uniform over the slice it is given"]

S = "shuttle_schedulers::"


def r1_determinism(ctx):
    prog = ctx.prog
    n = 0
    for im in scheduler_impls(prog):
        st = im.get("self_ty", "")
        if any(w in st for w in WRAPPERS) or im["crate"] != "shuttle_schedulers":
            continue
        for meth in ("new_execution", "next_task", "next_u64"):
            b = impl_method(prog, im, meth)
            if b is None:
                continue
            n += 1
            fns = kinds.fn_closure(prog, b.nkey, "shuttle_schedulers")
            bad = []
            for f in sorted(fns):
                fb = prog.get(f)
                for s, t in fb.calls():
                    for c in fb.callees_of_call(t, passed=False):
                        if DENY.search(c):
                            if "env::var" in c and f.endswith("RandomScheduler as shuttle_engine::scheduler::Scheduler>::new_execution"):
                                continue   # SHUTTLE_ALWAYS_PERSIST_SEED: write-only side channel (C01.R6 table)
                            bad.append("%s calls %s at %s" % (f, c, fb.loc(s)))
                        if HASHIT.search(c) and not hash_iteration_allowed(prog, fb, s, t, c):
                            bad.append("%s iterates a default-hasher collection (%s) at %s" % (f, c, fb.loc(s)))
            ctx.ob("C10.R1", "deterministic|%s" % b.nkey, not bad,
                   "`%s` and its %d in-crate callees use no ambient nondeterminism" % (b.nkey, len(fns) - 1) if not bad else "; ".join(bad[:3]), loc=b.loc())
    ctx.floor("C10.R1", "scheduler methods analysed", n, 18)
    # constructors: OsRng only in `new`, env only via seed_from_env
    for ty in ("random::RandomScheduler", "urw::UrwRandomScheduler", "pct::PctScheduler"):
        nb = prog.get(S + ty + "::new_from_seed")
        if nb is None:
            ctx.ob("C10.R1", "anchor|" + ty, False, "`%s::new_from_seed` not found — rule not established" % ty, nontrivial=False)
            continue
        calls = {c for s, t in nb.calls() for c in nb.callees_of_call(t, passed=False)}
        ctx.ob("C10.R1", "seed-from-env|" + ty, "shuttle_engine::seed_from_env" in calls and not any("OsRng" in c for c in calls),
               "`%s::new_from_seed` derives its seed from its argument through seed_from_env only" % ty, loc=nb.loc())


def r2_reproducible(ctx):
    prog = ctx.prog
    ne = ctx.body("<" + S + "random::RandomScheduler as shuttle_engine::scheduler::Scheduler>::new_execution", "C10.R2")
    sl = Slicer(ne, alias_defs=False)

    def from_reinit(op):
        labels, _ = sl.slice_operand(op)
        return any(l == "call:" + REINIT or l.endswith("DataSource>::reinitialize") for l in labels)

    upd = [(s, t) for s, t in ne.calls() if S + "random::CurrentSeedDropGuard::update" in ne.callees_of_call(t, passed=False)]
    ctx.ob("C10.R2", "drop-guard-seed", bool(upd) and all(from_reinit(t["args"][1]) for s, t in upd),
           "the failing-seed guard is updated with the per-execution seed", loc=ne.loc())
    for chk in ("check_random_with_seed",):
        b = prog.get(S + "check::" + chk)
        if b is None:
            ctx.ob("C10.R2", "anchor|" + chk, False, "`%s` not found — rule not established" % chk, nontrivial=False)
            continue
        slb = Slicer(b, alias_defs=False)
        cs = [(s, t) for s, t in b.calls() if S + "random::RandomScheduler::new_from_seed" in b.callees_of_call(t, passed=False)]
        ok = bool(cs)
        for s, t in cs:
            l = operand_local(t["args"][0])
            ok &= (l is not None and "arg:2" in slb.slice_operand(t["args"][0])[0] and not any(x.startswith("call:") for x in slb.slice_operand(t["args"][0])[0]))
        ctx.ob("C10.R2", "seed-passed-unchanged|" + chk, ok, "`%s` passes its seed argument unchanged to RandomScheduler::new_from_seed" % chk, loc=b.loc())
    nfs = ctx.body(S + "random::RandomScheduler::new_from_seed", "C10.R2")
    sln = Slicer(nfs, alias_defs=False)
    seeds = [(s, t) for s, t in nfs.calls() if any(c.endswith("seed_from_u64") for c in nfs.callees_of_call(t, passed=False))]
    inits = [(s, t) for s, t in nfs.calls() if any(c.endswith("DataSource>::initialize") or c.endswith("DataSource::initialize") for c in nfs.callees_of_call(t, passed=False))]
    ok = bool(seeds) and bool(inits)
    for s, t in seeds + inits:
        ok &= "call:shuttle_engine::seed_from_env" in sln.slice_operand(t["args"][0])[0]
    ctx.ob("C10.R2", "one-seed-at-construction", ok, "new_from_seed seeds both the choice RNG and the data source from the same (env-overridable) seed", loc=nfs.loc())
    reseed_returns_installed(ctx, "C10.R2")


def reseed_returns_installed(ctx, rule):
    """The seed a data source reports for an execution is the seed its generator was (re)started from — on every path: a replay
    started from the reported seed begins at seed_from_u64(seed), so an iteration that kept the previous generator state would
    hand out other data than its replay."""
    prog = ctx.prog
    RD = "shuttle_engine::scheduler::data::random::RandomDataSource"
    b = ctx.body("<" + RD + " as shuttle_engine::scheduler::data::DataSource>::reinitialize", rule)
    fs = FlowSlicer(b, control=False)
    writes = []
    for s in b.sites():
        st = b.at(s)
        if st.get("k") in ("assign", "call") and st.get("dst") and last_field(st["dst"]) == RD + ".rng":
            ops = st["args"] if st.get("k") == "call" else st["rv"].get("ops", [])
            labs = set()
            for o in ops:
                labs |= fs.operand_labels(o, s)
            if st.get("k") == "call" and any(c.endswith("seed_from_u64") for c in b.callees_of_call(st, passed=False)) or any(l.endswith("seed_from_u64") for l in labs):
                writes.append(s)
    ws = set(writes)
    w = b.path_exists(None, b.is_return, lambda x: x in ws)
    ctx.ob(rule, "reseed-on-every-path", bool(writes) and w is None,
           "RandomDataSource::reinitialize restarts its generator with seed_from_u64 on every path to its return" if (writes and w is None) else
           "RandomDataSource::reinitialize can return a seed without restarting the generator from it: the iteration's data would not be the data "
           "that a replay of the reported seed draws", loc=b.loc())
    # ... and the value returned is the value the generator was restarted from
    ret_labs = set()
    for s, st in b.assigns():
        if st["dst"]["l"] == 0 and not st["dst"].get("p") and st["rv"].get("ops"):
            ret_labs |= fs.operand_labels(st["rv"]["ops"][0], s)
    same = False
    for s in writes:
        st = b.at(s)
        ops = st["args"] if st.get("k") == "call" else st["rv"].get("ops", [])
        wl = set()
        for o in ops:
            wl |= fs.operand_labels(o, s)
        same |= bool({l for l in wl if l.startswith(("field:", "call:")) and not l.endswith("seed_from_u64")} & ret_labs) or not wl
    ctx.ob(rule, "returned-seed-is-installed-seed", same, "the seed returned by reinitialize is the value passed to seed_from_u64", loc=b.loc())


def r3_unbiased(ctx):
    prog = ctx.prog
    nt = ctx.body("<" + S + "random::RandomScheduler as shuttle_engine::scheduler::Scheduler>::next_task", "C10.R3")
    _choose_on_param(ctx, nt, "RandomScheduler::next_task", "choose")
    for b in prog.all_bodies({"shuttle_schedulers"}):
        if not b.nkey.startswith(S + "urw::") or b.parent:
            continue
        for s, t in b.calls():
            cs = b.callees_of_call(t, passed=False)
            if any(c.endswith("SliceRandom::choose") or c.endswith("SliceRandom>::choose") for c in cs):
                _choose_on_param(ctx, b, b.nkey.split("::")[-1], "choose")
            if any(c.endswith("choose_weighted") for c in cs):
                _choose_on_param(ctx, b, b.nkey.split("::")[-1], "choose_weighted")
    # decrements of task_event_counts clamp with max(1)
    urw_bodies = [b for b in prog.all_bodies({"shuttle_schedulers"}) if b.nkey.startswith(S + "urw::") or "urw::UrwRandomScheduler" in b.nkey]
    subs = 0
    clamped = 0
    for b in urw_bodies:
        for s, st in b.assigns():
            rv = st["rv"]
            if rv["k"] == "binop" and rv.get("op") in ("Sub", "SubWithOverflow", "SubUnchecked"):
                subs += 1
                # the result must flow into a max(.., 1) call before being stored
                d = st["dst"]["l"]
                fl = b.reach_sites(s)
                if any(b.is_term(x) and b.term(x.bb)["k"] == "call" and any(c.endswith("::max") for c in b.callees_of_call(b.term(x.bb), passed=False))
                       and any(kinds.operand_const(b, a) == 1 for a in b.term(x.bb)["args"]) for x in fl):
                    clamped += 1
            if rv["k"] == "use":
                pass
    sat = [(b, s) for b in urw_bodies for s, t in b.calls() if any("saturating_sub" in c for c in b.callees_of_call(t, passed=False))]
    for b, s in sat:
        subs += 1
        fl = b.reach_sites(s)
        if any(b.is_term(x) and b.term(x.bb)["k"] == "call" and any(c.endswith("::max") for c in b.callees_of_call(b.term(x.bb), passed=False)) for x in fl):
            clamped += 1
    ctx.ob("C10.R3", "weights-clamped", subs >= 1 and clamped == subs,
           "every decrement of a URW event count (%d site(s)) is followed by max(.., 1): no offered task gets weight zero through a decrement" % subs, loc=None)


def _choose_on_param(ctx, b, name, meth):
    sl = Slicer(b, alias_defs=False)
    for s, t in b.calls():
        cs = b.callees_of_call(t, passed=False)
        if not any(c.endswith("::" + meth) for c in cs):
            continue
        recv = t["args"][0]
        labels, locs = sl.slice_operand(recv)
        params = {l for l in labels if l.startswith("arg:")}
        calls = {l for l in labels if l.startswith("call:")}
        # the receiver is the parameter slice itself: no intermediate call (filter/sort/index) between the parameter and the receiver
        runnable_params = [i for i in range(1, b.arg_count + 1) if "Task]" in b.local_ty(i)]
        ok = bool(runnable_params) and params == {"arg:%d" % runnable_params[0]} and not calls
        ctx.ob("C10.R3", "%s-on-offered-slice|%s" % (meth, b.nkey), ok,
               "`%s` calls %s on the offered `runnable` slice itself (no re-slicing, filtering or reordering)" % (name, meth) if ok else
               "`%s` calls %s on something derived from the offered list (%s): some offered tasks may never be chosen" % (name, meth, sorted(calls | params)),
               loc=b.loc(s))
        if len(t["args"]) > 1:
            la, _ = sl.slice_operand(t["args"][1])
            ctx.ob("C10.R3", "%s-rng|%s" % (meth, b.nkey), any(l.startswith("field:") and l.endswith(".rng") for l in la),
                   "`%s` draws from the scheduler's own seeded rng" % name, loc=b.loc(s))


RULES = [("C10.R1", r1_determinism), ("C10.R2", r2_reproducible), ("C10.R3", r3_unbiased)]
