"""C12 — failures surface with a reproducing schedule: persist-before-raise (K2), hook uses the current run's
configuration (K4/K5), marker per execution (K2), None/ContinueAfter are silent (K9-style absence),
payload identity (dataflow), file persistence (K1), portfolio (K2)."""
import re

from engine import kinds
from engine.facts import Site, Slicer, norm, operand_local, control_deps, last_field
from engine.slicing import FlowSlicer

CRATES = {"shuttle_engine", "shuttle_schedulers"}
EXPLANATION = (
    "Static decision of structural clauses of C12 on the MIR of the engine. (R1) in Execution::run every diverging "
    "call (resume_unwind / panic) after run_to_completion is dominated by StepError::persist_failure; (R2) the "
    "configuration handed to persist_failure inside the process-wide panic hook depends on a read of per-thread state "
    "that Execution::run sets before the main task is spawned — not only on what the hook closure captured when it was "
    "installed; (R3) the duplicate-suppression marker is reset on the run entry path; (R4) the FailurePersistence::None arm "
    "emits nothing, StepError::persist_failure has a silent path guarded by StepBoundExceeded+ContinueAfter, and the "
    "step-bound panic is guarded by the max_steps variant; (R5) the payload re-raised is the field of the matched TaskFailure, "
    "which is only built from the Err of catch_unwind around resume(); (R6) schedule files are opened with create_new(true); "
    "(R7) a portfolio member signals Failed before re-raising and the joiner re-raises.")
NOT_DECIDED = "that replaying the emitted schedule reproduces the failure (C01's concern); message texts"
ASSUMPTIONS = ["panics of an execution happen on the OS thread that runs it (tasks are continuations on that thread)"]

E = "shuttle_engine::runtime::execution::"
F = "shuttle_engine::runtime::failure::"
RUN = E + "Execution::run"
PERSIST = F + "persist_failure"
SE_PERSIST = E + "StepError::persist_failure"
HOOK_INIT = F + "init_panic_hook"
DIVERGE_RE = re.compile(r"^(std::panic::resume_unwind|core::panicking::|std::rt::begin_panic|std::panicking::)")


def _diverging(body):
    return [(s, t) for s, t in body.calls() if t.get("target") is None]


def r1_persist_before_raise(ctx):
    prog = ctx.prog
    b = ctx.closure(RUN, RUN.rsplit("::", 1)[0] + "::run_to_completion", "C12.R1")
    rtc = [s for s, t in b.calls() if E + "Execution::run_to_completion" in b.callees_of_call(t, passed=False)]
    if not ctx.floor("C12.R1", "run_to_completion call in Execution::run", len(rtc), 1):
        return
    div = [(s, t) for s, t in _diverging(b) if b.path_exists(rtc[0], lambda x, s=s: x == s) is not None]
    ctx.floor("C12.R1", "raise sites after run_to_completion", len(div), 4)
    for i, (s, t) in enumerate(div):
        callee = norm(t.get("callee", "?"))
        w = kinds.must_precede(prog, b, s, {SE_PERSIST, PERSIST})
        # only paths that come through run_to_completion matter
        ok = w is None
        ctx.ob("C12.R1", "persist-dominates|%s|#%d" % (callee, i), ok,
               "raise site `%s` at %s is preceded by StepError::persist_failure on every path" % (callee, b.loc(s)) if ok else
               "raise site `%s` at %s can be reached without persisting the schedule first" % (callee, b.loc(s)), loc=b.loc(s))
    # StepError::persist_failure forwards to persist_failure with the run's own config parameter
    sp = ctx.body(SE_PERSIST, "C12.R1")
    calls = [(s, t) for s, t in sp.calls() if PERSIST in sp.callees_of_call(t, passed=False)]
    spsl = Slicer(sp, alias_defs=False)
    ok = bool(calls) and all("arg:2" in spsl.slice_operand(t["args"][0])[0] for s, t in calls)
    ctx.ob("C12.R1", "forwards-config", ok, "StepError::persist_failure passes its own `config` argument to persist_failure", loc=sp.loc())
    # ... for EVERY kind of failure: the only way around the call is the silent ContinueAfter exit, i.e. a branch on config.max_steps.
    # (The panic hook is not a substitute: a payload re-raised with resume_unwind never runs it, and a failure that reaches the runner
    # after further scheduling points is longer than the prefix the hook saw.)
    cs = set(s for s, t in calls)
    ms_sw = set()
    slp = Slicer(sp, alias_defs=False)
    for bb in range(len(sp.blocks)):
        t = sp.term(bb)
        if t.get("k") != "switch":
            continue
        if kinds.discr_subject_field(sp, slp, t["discr"]) == "shuttle_engine::config::Config.max_steps" or \
                "field:shuttle_engine::config::Config.max_steps" in FlowSlicer(sp, control=False).operand_labels(t["discr"], sp.term_site(bb)):
            ms_sw.add(bb)
    w = sp.path_exists(None, sp.is_return, lambda x: x in cs, edge_ok=lambda a, nb: a not in ms_sw)
    ctx.ob("C12.R1", "persists-every-failure-kind", bool(calls) and w is None,
           "StepError::persist_failure reaches persist_failure on every path that does not go through the test of config.max_steps (ContinueAfter)" if (calls and w is None) else
           "StepError::persist_failure can return without persisting and without having looked at config.max_steps: some kind of failure is raised to the "
           "caller with no schedule emitted for it", loc=sp.loc())
    rb = ctx.body(RUN, "C12.R1")


def _hook_closure(prog, ctx):
    hi = ctx.body(HOOK_INIT, "C12.R2")
    # the closure handed to panic::set_hook (boxed): a closure nested in init_panic_hook that calls persist_failure
    cands = [b for b in prog.all_bodies({"shuttle_engine"}) if b.parent == HOOK_INIT and
             any(PERSIST in b.callees_of_call(t, passed=False) for s, t in b.calls())]
    return hi, cands


def r2_hook_config(ctx):
    prog = ctx.prog
    hi, cands = _hook_closure(prog, ctx)
    if not ctx.floor("C12.R2", "panic hook closure calling persist_failure", len(cands), 1):
        return
    hook = cands[0]
    sl = Slicer(hook)
    site, t = [(s, t) for s, t in hook.calls() if PERSIST in hook.callees_of_call(t, passed=False)][0]
    labels, locs = sl.slice_operand(t["args"][0])
    # thread-local items read
    tls_items = set()
    for l in labels:
        if l.startswith("item:"):
            it = prog.items.get(l[5:])
            if it and "LocalKey" in it["ty"]:
                tls_items.add(l[5:])
    # also through closures handed to LocalKey::with/try_with: labels of those calls carry the const operand
    ok = bool(tls_items)
    ctx.ob("C12.R2", "hook-reads-thread-state", ok,
           ("the configuration given to persist_failure in the panic hook depends on thread-local %s" % sorted(tls_items)) if ok else
           "the configuration given to persist_failure in the panic hook depends only on what the closure captured when the hook was "
           "installed (process-wide Once): a later run with another configuration is persisted with the first run's settings",
           loc=hook.loc(site), detail={"slice_labels": sorted(labels)[:40]})
    # that state is written on the run entry path
    rb = ctx.body(RUN, "C12.R2")
    S = [s for s, t in rb.calls() if any(c.startswith("scoped_tls::ScopedKey") and c.endswith("::set") for c in rb.callees_of_call(t, passed=False))]
    if not ctx.floor("C12.R2", "EXECUTION_STATE.set call in Execution::run", len(S), 1):
        return
    for item in sorted(tls_items):
        ok2, how = kinds.reset_on_entry(prog, rb, S[0], item)
        ctx.ob("C12.R2", "state-set-per-run|" + item, ok2,
               "thread-local `%s` is written on every path from Execution::run's entry to the spawn of the main task (%s)" % (item, how) if ok2 else
               "thread-local `%s` read by the hook is not written on the run entry path (%s)" % (item, how), loc=rb.loc(S[0]))


def r3_marker(ctx):
    prog = ctx.prog
    rb = ctx.body(RUN, "C12.R3")
    S = [s for s, t in rb.calls() if any(c.startswith("scoped_tls::ScopedKey") and c.endswith("::set") for c in rb.callees_of_call(t, passed=False))]
    if not ctx.floor("C12.R3", "EXECUTION_STATE.set call in Execution::run", len(S), 1):
        return
    item = F + "SCHEDULE_PERSISTED_AT"
    if item not in prog.items:
        ctx.ob("C12.R3", "anchor|" + item, False, "marker `%s` not found — rule not established" % item, nontrivial=False)
        return
    ok, how = kinds.reset_on_entry(prog, rb, S[0], item, exclude={PERSIST})
    ctx.ob("C12.R3", "marker-reset-per-run", ok,
           "the duplicate-suppression marker SCHEDULE_PERSISTED_AT is reset on every path from Execution::run's entry to the main task (%s)" % how if ok else
           "SCHEDULE_PERSISTED_AT is never reset when an execution starts (%s): a second failing run with an equally long schedule emits nothing" % how,
           loc=rb.loc(S[0]))


EMIT_RE = re.compile(r"^(std::io::stdio::_eprint|std::io::stdio::_print|shuttle_engine::scheduler::serialization::serialize_schedule|"
                     r"shuttle_engine::runtime::failure::persist_failure_to_file|std::fs::|std::io::Write::)")


def r4_silence(ctx):
    prog = ctx.prog
    pf = ctx.body(PERSIST, "C12.R4")
    adt = prog.adts.get("shuttle_engine::config::FailurePersistence")
    names = [v["name"] for v in adt["variants"]] if adt else []
    if "None" not in names:
        ctx.ob("C12.R4", "anchor|FailurePersistence::None", False, "variant FailurePersistence::None not found — rule not established", nontrivial=False)
        return
    none_idx = names.index("None")
    sl = Slicer(pf, alias_defs=False)
    found = False
    for blk in pf.blocks:
        t = blk["term"]
        if t["k"] != "switch" or blk.get("cleanup"):
            continue
        if kinds.discr_subject_field(pf, sl, t["discr"]) != "shuttle_engine::config::Config.failure_persistence":
            continue
        arms = dict((a[0], a[1]) for a in t["arms"])
        tgt = arms.get(none_idx, t["otherwise"])
        found = True
        reach = pf.reach_sites(Site(tgt, 0), start_inclusive=True)
        bad = [s for s in reach if pf.is_term(s) and pf.term(s.bb)["k"] == "call" and
               any(EMIT_RE.search(c) for c in pf.callees_of_call(pf.term(s.bb)))]
        ctx.ob("C12.R4", "none-arm-silent", not bad,
               "the FailurePersistence::None arm of persist_failure reaches no print / serialisation / file call" if not bad else
               "the FailurePersistence::None arm of persist_failure emits output at %s" % pf.loc(bad[0]), loc=pf.loc(Site(blk["id"], len(blk["stmts"]))))
        # the other arms do emit
        others = [v for k, v in arms.items() if k != none_idx]
        emits = 0
        for o in others:
            r2 = pf.reach_sites(Site(o, 0), start_inclusive=True)
            if any(pf.is_term(s) and pf.term(s.bb)["k"] == "call" and any("serialize_schedule" in c for c in pf.callees_of_call(pf.term(s.bb))) for s in r2):
                emits += 1
        ctx.ob("C12.R4", "other-arms-emit", emits >= 2, "the Print and File arms serialise the current schedule (%d arms)" % emits, loc=pf.loc())
    ctx.floor("C12.R4", "match on config.failure_persistence in persist_failure", 1 if found else 0, 1)
    # StepError::persist_failure: a silent path exists and is guarded by self and config.max_steps
    sp = ctx.body(SE_PERSIST, "C12.R4")
    silent = sp.path_exists(None, sp.is_return, lambda s: prog.site_calls(sp, s, {PERSIST}))
    ctx.ob("C12.R4", "continue-after-silent-path", silent is not None,
           "StepError::persist_failure has a path that returns without persisting (StepBoundExceeded under ContinueAfter)", loc=sp.loc())
    sl2 = Slicer(sp, alias_defs=False)
    cd = control_deps(sp)
    call_sites = [s for s, t in sp.calls() if PERSIST in sp.callees_of_call(t, passed=False)]
    labs = set()
    kinds_of_discr = set()
    for s in call_sites:
        for sw in cd.get(s.bb, ()):
            l, locs = sl2.slice_operand(sp.term(sw)["discr"])
            labs |= l
    ok = "field:shuttle_engine::config::Config.max_steps" in labs and "arg:1" in labs
    ctx.ob("C12.R4", "silent-path-guard", ok,
           "persisting in StepError::persist_failure is controlled by the error variant (self) and by config.max_steps", loc=sp.loc())
    # the step-bound panic in run is guarded by the max_steps variant
    rc = ctx.closure(RUN, RUN.rsplit("::", 1)[0] + "::run_to_completion", "C12.R4")
    cd = control_deps(rc)
    sl3 = Slicer(rc, alias_defs=False)
    n = 0
    for s, t in _diverging(rc):
        for sw in cd.get(s.bb, ()):
            l, _ = sl3.slice_operand(rc.term(sw)["discr"])
            if "field:shuttle_engine::config::Config.max_steps" in l:
                n += 1
                break
    ctx.ob("C12.R4", "step-bound-panic-guarded", n >= 1, "the max-steps panic in Execution::run is controlled by the variant of config.max_steps (FailAfter only): %d site(s)" % n, loc=rc.loc())


def r5_payload(ctx):
    prog = ctx.prog
    rc = ctx.closure(RUN, RUN.rsplit("::", 1)[0] + "::run_to_completion", "C12.R5")
    ru = [(s, t) for s, t in rc.calls() if "std::panic::resume_unwind" in rc.callees_of_call(t, passed=False)]
    ctx.floor("C12.R5", "resume_unwind sites in Execution::run", len(ru), 2)
    sl = Slicer(rc, alias_defs=False)
    n_payload = 0
    for s, t in ru:
        labels, _ = sl.slice_operand(t["args"][0])
        if any(l.startswith("field:" + E + "StepError::TaskFailure") for l in labels):
            n_payload += 1
    ctx.ob("C12.R5", "payload-is-field", n_payload == 1, "exactly one resume_unwind re-raises the payload stored in StepError::TaskFailure (%d)" % n_payload, loc=rc.loc())
    cons = prog.adt_constructions(E + "StepError", "TaskFailure", {"shuttle_engine"})
    ctx.floor("C12.R5", "construction sites of StepError::TaskFailure", len(cons), 1)
    for b, s, st in cons:
        sl2 = Slicer(b, alias_defs=False)
        labels, _ = sl2.slice_operand(st["rv"]["ops"][0])
        ok = "call:std::panic::catch_unwind" in labels and b.nkey.startswith(E + "Execution::run_to_completion")
        ctx.ob("C12.R5", "payload-source|" + b.nkey, ok, "StepError::TaskFailure in `%s` carries the Err payload of catch_unwind around resume()" % b.nkey, loc=b.loc(s))
    # catch_unwind wraps the continuation resume
    rtc = ctx.body(E + "Execution::run_to_completion", "C12.R5")
    cu = [(s, t) for s, t in rtc.calls() if "std::panic::catch_unwind" in rtc.callees_of_call(t, passed=False)]
    ok = False
    for s, t in cu:
        for c in rtc.passed_callables(t) | {x for a in t["args"] for x in rtc.closure_defs.get(operand_local(a) or -1, set())}:
            if "shuttle_engine::runtime::thread::continuation::Continuation::resume" in prog.may_reach([c]):
                ok = True
    ctx.ob("C12.R5", "catch-wraps-resume", ok, "catch_unwind in run_to_completion wraps Continuation::resume", loc=rtc.loc())


def r6_file(ctx):
    prog = ctx.prog
    b = ctx.body(F + "persist_failure_to_file", "C12.R6")
    cn = [(s, t) for s, t in b.calls() if "std::fs::OpenOptions::create_new" in b.callees_of_call(t, passed=False)]
    ok = bool(cn) and all(kinds.operand_const(b, t["args"][1]) == 1 for s, t in cn)
    ctx.ob("C12.R6", "create_new", ok, "schedule files are opened with OpenOptions::create_new(true)", loc=b.loc(cn[0][0]) if cn else b.loc())
    bad = [s for s, t in b.calls() if any(re.search(r"std::fs::(OpenOptions::(create|truncate|append)$|File::create)", c) for c in b.callees_of_call(t, passed=False))]
    ctx.ob("C12.R6", "no-overwrite", not bad, "persist_failure_to_file never opens a file in create/truncate/append mode", loc=b.loc())


def r7_portfolio(ctx):
    prog = ctx.prog
    R = "shuttle_engine::runtime::runner::PortfolioRunner::run"
    rb = ctx.body(R, "C12.R7")
    # the member thread closure: nested closure that calls catch_unwind and resume_unwind
    mem = [b for b in prog.all_bodies({"shuttle_engine"}) if b.nkey.startswith(R + "::") and
           any("std::panic::resume_unwind" in b.callees_of_call(t, passed=False) for s, t in b.calls())]
    ctx.floor("C12.R7", "portfolio member closure re-raising", len(mem), 1)
    for b in mem:
        for s, t in b.calls():
            if "std::panic::resume_unwind" in b.callees_of_call(t, passed=False):
                w = kinds.must_precede(prog, b, s, {"std::sync::mpsc::SyncSender::send"})
                ctx.ob("C12.R7", "signal-before-reraise|" + b.nkey, w is None, "a failing portfolio member sends its result before re-raising", loc=b.loc(s))
    ru = [s for s, t in rb.calls() if "std::panic::resume_unwind" in rb.callees_of_call(t, passed=False)]
    jn = [s for s, t in rb.calls() if any(c.endswith("JoinHandle::join") for c in rb.callees_of_call(t, passed=False))]
    ok = bool(ru) and bool(jn)
    if ok:
        sl = Slicer(rb)
        labels, _ = sl.slice_operand(rb.term(ru[0].bb)["args"][0])
        ok = any(l.endswith("JoinHandle::join") for l in labels)
    ctx.ob("C12.R7", "joiner-reraises", ok, "PortfolioRunner::run re-raises the Err returned by a member's join", loc=rb.loc())


RULES = [("C12.R1", r1_persist_before_raise), ("C12.R2", r2_hook_config), ("C12.R3", r3_marker), ("C12.R4", r4_silence),
         ("C12.R5", r5_payload), ("C12.R6", r6_file), ("C12.R7", r7_portfolio)]
