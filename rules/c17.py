"""C17 — async executor: poll-loop shape in the three executors (K6+K3+K9), wake always records (K3), result published
before the joiner is woken (K2), cancel/detach (K1+K3)."""
from engine import kinds
from engine.facts import Site, Slicer, norm, operand_local, control_deps, last_field
from engine.slicing import FlowSlicer, expand_closure_labels

CRATES = {"shuttle_engine", "shuttle_std", "shuttle"}
EXPLANATION = (
    "Static decision of structural clauses of C17. (R1) in the three poll loops (the closure built by Task::from_future, "
    "engine::future::block_on, std::future::block_on): after a poll, sleep_unless_woken is called, then thread::switch, then the "
    "loop returns to poll; between the return of poll and sleep_unless_woken there is no call that may reach a choice point (so a "
    "wake can only arrive while the task runs or after it yielded and the `woken` flag cannot be missed); the loop can leave "
    "without sleeping (Ready). (R2) Task::wake sets `woken` on every path and unblocks only a Sleeping task; sleep_unless_woken "
    "consumes the flag with mem::replace and sleeps only when it was clear; both waker vtable entries reach Task::wake. (R3) "
    "Wrapper::finish publishes the result after the thread-local destructors and before waking the joiner; JoinHandle::poll "
    "registers the waker only when the slot is empty. (R4) dropping a JoinHandle detaches and never aborts; abort swaps the flag, "
    "returns early when it was already set and otherwise reaches Task::abort; the aborted branch of Wrapper::poll drops the inner "
    "future before finish(Err(Cancelled)) and does not poll it.")
NOT_DECIDED = "lost wake-ups inside arbitrary user futures with hand-written wakers; schedule-dependent delivery orders"
ASSUMPTIONS = ["closures are run where they are passed"]

T = "shuttle_engine::runtime::task::"
E = "shuttle_engine::runtime::execution::"
ES = E + "ExecutionState::"
SLEEP = T + "Task::sleep_unless_woken"
LOOPS = [T + "Task::from_future", "shuttle_engine::future::block_on", "shuttle_std::future::block_on"]


def _is_poll(names):
    return any(n.endswith("future::future::Future::poll") or n.endswith("core::future::future::Future>::poll") for n in names)


def r1_poll_loops(ctx):
    prog = ctx.prog
    may_switch = kinds.may_reach_set(prog, {kinds.SWITCH})
    for key in LOOPS:
        b = ctx.body(key, "C17.R1")
        if not any(_is_poll(b.callees_of_call(t, passed=False)) for s, t in b.calls()):
            # the poll loop is an async block inside the function: select it by what it does, not by its closure index
            b = ctx.closure(key, lambda c: _is_poll([c]), "C17.R1", "Future::poll")
        polls = [s for s, t in b.calls() if _is_poll(b.callees_of_call(t, passed=False))]
        sleeps = [s for s, t in b.calls() if SLEEP in prog.may_reach(list(b.passed_callables(t))) or SLEEP in b.callees_of_call(t, passed=False)]
        sws = [s for s, t in b.calls() if kinds.SWITCH in b.callees_of_call(t, passed=False)]
        if not (ctx.floor("C17.R1", "poll call in " + key, len(polls), 1) and ctx.floor("C17.R1", "sleep_unless_woken in " + key, len(sleeps), 1)
                and ctx.floor("C17.R1", "thread::switch in " + key, len(sws), 1)):
            continue
        P, S, W = polls[0], sleeps[0], sws[0]
        ok1 = b.site_dominates(P, S)
        ctx.ob("C17.R1", "sleep-after-poll|" + key, ok1, "`%s`: sleep_unless_woken is only reached after a poll" % key, loc=b.loc(S))
        back = b.path_exists(S, lambda x: x == P, lambda x: x == W)
        ctx.ob("C17.R1", "yield-after-sleep|" + key, back is None and b.path_exists(S, lambda x: x == P) is not None,
               "`%s`: after sleep_unless_woken every path back to poll passes through thread::switch" % key if back is None else
               "`%s`: the loop can re-poll (or fall asleep) after sleep_unless_woken without yielding" % key, loc=b.loc(S))
        # atomic window between poll and sleep
        bad = None
        for x in b.reach_sites(P, is_avoid=lambda y: y == S):
            if x == S or x == P or not b.is_term(x):
                continue
            t = b.term(x.bb)
            if t["k"] == "call" and (b.callees_of_call(t) & may_switch) and b.path_exists(x, lambda y: y == S) is not None:
                bad = (x, sorted(b.callees_of_call(t) & may_switch)[0])
                break
        ctx.ob("C17.R1", "no-yield-between-poll-and-sleep|" + key, bad is None,
               "`%s`: no call that may reach a choice point lies between the return of poll and sleep_unless_woken" % key if bad is None else
               "`%s`: `%s` at %s may yield between poll and sleep_unless_woken: a wake delivered in that window is recorded in `woken`, but a wake delivered "
               "after the flag is consumed and before the task sleeps would be lost" % (key, bad[1], b.loc(bad[0])), loc=b.loc(P))
        leave = b.path_exists(P, b.is_return, lambda x: x == S)
        ctx.ob("C17.R1", "ready-leaves-loop|" + key, leave is not None, "`%s`: the loop can return (Ready) without sleeping" % key, loc=b.loc(P))


def r2_wake_records(ctx):
    prog = ctx.prog
    wk = ctx.body(T + "Task::wake", "C17.R2")
    setw = lambda s: wk.at(s).get("k") == "assign" and last_field(wk.at(s)["dst"]) == T + "Task.woken" and wk.at(s)["rv"]["k"] == "use" and wk.at(s)["rv"]["ops"][0].get("ev") == 1
    ctx.ob("C17.R2", "wake-sets-woken", wk.path_exists(None, wk.is_return, setw) is None, "Task::wake sets `woken = true` on every path", loc=wk.loc())
    fs = FlowSlicer(wk)
    ub = [s for s, t in wk.calls() if T + "Task::unblock" in wk.callees_of_call(t, passed=False)]
    ok = bool(ub) and ("field:" + T + "Task.state") in fs.guard_labels(ub[0])
    ctx.ob("C17.R2", "wake-unblocks-only-sleeping", ok, "Task::wake unblocks under a test of Task.state (Sleeping) only", loc=wk.loc())
    su = ctx.body(SLEEP, "C17.R2")
    rep = [s for s, t in su.calls() if "core::mem::replace" in su.callees_of_call(t, passed=False)]
    sl = [s for s, t in su.calls() if T + "Task::sleep" in su.callees_of_call(t, passed=False)]
    fss = FlowSlicer(su)
    ok = bool(rep) and bool(sl) and "call:core::mem::replace" in fss.guard_labels(sl[0]) and ("field:" + T + "Task.woken") in fss.guard_labels(sl[0])
    ctx.ob("C17.R2", "sleep-consumes-flag", ok, "sleep_unless_woken consumes `woken` with mem::replace and sleeps only when it was clear", loc=su.loc())
    # sleep only when flag was false: the sleep call is on the `false` edge
    if rep and sl:
        br = kinds.bool_branch(su, rep[0])
        ok2 = br is not None and su.path_exists(Site(br[0], 0), lambda x: x == sl[0], start_inclusive=True) is None
        ctx.ob("C17.R2", "sleep-only-if-not-woken", ok2, "the sleep is not reachable on the `was woken` edge", loc=su.loc())
    for f in ("raw_waker_wake", "raw_waker_wake_by_ref"):
        k = T + "waker::" + f
        b = ctx.body(k, "C17.R2")
        ctx.ob("C17.R2", "vtable-reaches-wake|" + f, T + "Task::wake" in prog.may_reach([k]), "waker vtable entry `%s` reaches Task::wake" % f, loc=b.loc())
    w = kinds.writers_of_field(prog, T + "Task.woken", None, kinds=("assign", "call_dst", "refmut"))
    kinds.check_who_may(ctx, "C17.R2", "writer of Task.woken", set(w), {T + "Task::wake", SLEEP}, required={T + "Task::wake", SLEEP})


def r3_result_then_wake(ctx):
    prog = ctx.prog
    F = "shuttle_std::future::"
    fin = ctx.body(F + "Wrapper::finish", "C17.R3")
    RES = F + "JoinHandleInner.result"
    res_w = [s for s in fin.sites() if fin.at(s).get("k") in ("assign", "call") and last_field(fin.at(s).get("dst", {"l": 0})) == RES]
    wakes = [s for s, t in fin.calls() if any(c.endswith("Waker::wake") for c in fin.callees_of_call(t, passed=False))]
    pops = [s for s, t in fin.calls() if T + "Task::pop_local" in prog.may_reach(list(fin.callees_of_call(t)))]
    ok = bool(res_w) and bool(wakes) and all(fin.site_dominates(res_w[0], w) for w in wakes)
    ctx.ob("C17.R3", "result-before-wake", ok, "Wrapper::finish stores the result before waking the joiner", loc=fin.loc())
    ok2 = bool(pops) and bool(res_w) and fin.site_dominates(pops[0], res_w[0]) and fin.path_exists(pops[0], lambda x: x == pops[0]) is not None
    ctx.ob("C17.R3", "destructors-before-result", ok2, "Wrapper::finish runs the thread-local destructor loop before publishing the result", loc=fin.loc())
    jp = ctx.body("<" + F + "JoinHandle as core::future::future::Future>::poll", "C17.R3")
    WK = F + "JoinHandleInner.waker"
    ww = [s for s in jp.sites() if jp.at(s).get("k") in ("assign", "call") and last_field(jp.at(s).get("dst", {"l": 0})) == WK]
    fsj = FlowSlicer(jp)
    ok = bool(ww) and ("field:" + RES) in fsj.guard_labels(ww[0]) and any(l.endswith("Option::take") for l in fsj.guard_labels(ww[0]))
    ctx.ob("C17.R3", "waker-registered-only-when-empty", ok, "JoinHandle::poll registers its waker only on the branch where the result slot was empty (result.take() is None)", loc=jp.loc())
    w = kinds.writers_of_field(prog, RES, None, kinds=("assign", "call_dst"))
    kinds.check_who_may(ctx, "C17.R3", "writer of JoinHandleInner.result", set(w), {F + "Wrapper::finish"})


def r4_cancel_detach(ctx):
    prog = ctx.prog
    F = "shuttle_std::future::"
    d = ctx.body("<" + F + "JoinHandle as core::ops::drop::Drop>::drop", "C17.R4")
    reach = prog.may_reach([d.nkey])
    ctx.ob("C17.R4", "drop-detaches", T + "Task::detach" in reach and T + "Task::abort" not in reach,
           "dropping a JoinHandle reaches Task::detach and never Task::abort", loc=d.loc())
    for who in ("JoinHandle::abort", "AbortHandle::abort"):
        b = ctx.body(F + who, "C17.R4")
        sw = [s for s, t in b.calls() if any(c.endswith("::swap") and "atomic" in c for c in b.callees_of_call(t, passed=False))]
        ab = [s for s, t in b.calls() if T + "Task::abort" in prog.may_reach(list(b.callees_of_call(t)))]
        ok = bool(sw) and bool(ab) and all(b.site_dominates(sw[0], a) for a in ab)
        early = False
        if sw:
            br = kinds.bool_branch(b, sw[0])
            early = br is not None and all(b.path_exists(Site(br[0], 0), lambda x, a=a: x == a, start_inclusive=True) is None for a in ab)
        ctx.ob("C17.R4", "abort-idempotent|" + who, ok and early,
               "`%s` swaps the aborted flag first and does not reach Task::abort when it was already set" % who, loc=b.loc())
    wp = ctx.body("<" + F + "Wrapper as core::future::future::Future>::poll", "C17.R4")
    loads = [s for s, t in wp.calls() if any(c.endswith("::load") and "atomic" in c for c in wp.callees_of_call(t, passed=False))]
    if ctx.floor("C17.R4", "aborted flag test in Wrapper::poll", len(loads), 1):
        br = kinds.bool_branch(wp, loads[0])
        if br is None:
            ctx.ob("C17.R4", "aborted-branch", False, "the aborted flag does not control a branch in Wrapper::poll", loc=wp.loc())
        else:
            start = Site(br[0], 0)
            reach = wp.reach_sites(start, start_inclusive=True)
            polls = [x for x in reach if wp.is_term(x) and wp.term(x.bb)["k"] == "call" and _is_poll(wp.callees_of_call(wp.term(x.bb), passed=False))]
            fins = [x for x in reach if wp.is_term(x) and wp.term(x.bb)["k"] == "call" and F + "Wrapper::finish" in wp.callees_of_call(wp.term(x.bb), passed=False)]
            takes = [x for x in reach if wp.is_term(x) and wp.term(x.bb)["k"] == "call" and any(c.endswith("Option::take") for c in wp.callees_of_call(wp.term(x.bb), passed=False))]
            ok = not polls and bool(fins) and bool(takes) and all(wp.path_exists(start, lambda y, f=f: y == f, lambda y: y in set(takes), start_inclusive=True) is None for f in fins)
            ctx.ob("C17.R4", "aborted-branch", ok,
                   "on the aborted branch Wrapper::poll never polls the inner future and takes (drops) it before finish(Err(Cancelled))", loc=wp.loc(loads[0]))
    ta = ctx.body(T + "Task::abort", "C17.R4")
    ctx.ob("C17.R4", "task-abort-wakes", T + "Task::wake" in prog.may_reach([ta.nkey]), "Task::abort wakes the task so that its wrapper observes the flag", loc=ta.loc())


def waker_registrations(prog, crates):
    """[(body, [clone sites], [Pending construction sites])] for every body (closures included) that clones the waker of
    the Context it was polled with and itself answers Poll::Pending."""
    out = []
    for b in prog.all_bodies(crates):
        clones = []
        for s, t in b.calls():
            if not any(c.endswith("task::wake::Waker as core::clone::Clone>::clone") for c in b.callees_of_call(t, passed=False)):
                continue
            labs = FlowSlicer(b, control=False).operand_labels(t["args"][0], s)
            if any(l.startswith("call:") and l.endswith("::waker") and "Context" in l for l in labs):
                clones.append(s)
        if not clones:
            continue
        pend = [s for s, st in b.assigns() if st["rv"]["k"] == "aggr" and st["rv"].get("variant") == "Pending" and "Poll" in str(st["rv"].get("adt", ""))]
        if pend:
            out.append((b, clones, pend))
    return out


def fresh_waker_rule(ctx, rule, crates, floor):
    """Future contract: only the waker of the most recent poll has to be woken, so a future that registers wakers must
    register the current one on every path on which it answers Pending — an `if slot.is_none()` short-cut leaves the waker
    of an earlier poller in place and the task that awaits now is never woken (reported as a deadlock that is none)."""
    regs = waker_registrations(ctx.prog, crates)
    ctx.floor(rule, "futures that register the polling task's waker", len(regs), floor)
    for b, clones, pend in regs:
        cs = set(clones)
        for i, p in enumerate(pend):
            w = b.path_exists(None, lambda x, p=p: x == p, lambda x: x in cs)
            ctx.ob(rule, "fresh-waker-on-pending|%s|#%d" % (b.nkey, i), w is None,
                   "`%s` registers the current Context's waker on every path to this Poll::Pending" % b.nkey if w is None else
                   "`%s` can answer Poll::Pending without registering the waker of the task polling now: a waker stored by an earlier poller stays in "
                   "place and the current awaiter is never woken" % b.nkey, loc=b.loc(p))


def r5_fresh_waker(ctx):
    fresh_waker_rule(ctx, "C17.R5", {"shuttle_std", "shuttle"}, 1)


RULES = [("C17.R1", r1_poll_loops), ("C17.R2", r2_wake_records), ("C17.R3", r3_result_then_wake), ("C17.R4", r4_cancel_detach), ("C17.R5", r5_fresh_waker)]
