"""C11 — PCT (narrow): structural clauses only. The choice is the minimum-priority-key task of the *whole* offered slice; the
priority map is written only (a) when a new task id is first seen, (b) under `change point || is_yielding` with more than one
runnable task, where the key written is the task that ran last; change points are sampled from the scheduler's own rng bounded
by depth-1; iteration budget. The probability bound and the exact change-point range are NOT decided."""
import re

from engine import kinds
from engine.facts import Site, Slicer, norm, operand_local, control_deps, last_field
from engine.slicing import FlowSlicer, expand_closure_labels
from engine.lin import Lin
from rules.c18 import _calls_on_field

CRATES = {"shuttle_engine", "shuttle_schedulers"}
EXPLANATION = (
    "Static decision of the structural clauses of C11 only (stated plainly: the priority discipline as a behaviour over all "
    "executions, the change-point range and the 1/(n*k^(d-1)) bound are numeric/statistical and are not decided). (R1) "
    "PctScheduler::next_task returns the id of `min_by_key` over an iterator of the offered `runnable` parameter itself, keyed "
    "by a lookup in self.priorities — always the highest-priority offered task, no offered task excluded. (R2) every write of "
    "the priority map in next_task is either in the new-task loop or guarded by (change_points.contains(steps) || is_yielding) "
    "under runnable.len() > 1, and the key demoted there is the `current` parameter (only the task that was running). (R3) the "
    "change points are drawn with rand's index::sample from self.rng with a count bounded by max_depth - 1 (min with max_steps - 1). "
    "(R4) iterations is incremented once per successful new_execution and None is returned when the budget is used up. "
    "(determinism for a given seed: C10.R1 runs over PctScheduler.)")
NOT_DECIDED = "strict-priority behaviour over whole executions, change-point placement range, the detection probability bound, settling of the k estimate"
ASSUMPTIONS = ["rand::seq::index::sample returns distinct indices below its bound"]

P = "shuttle_schedulers::pct::"
NT = "<" + P + "PctScheduler as shuttle_engine::scheduler::Scheduler>::next_task"
NE = "<" + P + "PctScheduler as shuttle_engine::scheduler::Scheduler>::new_execution"
PRI = P + "PctScheduler.priorities"


def r1_choice(ctx):
    prog = ctx.prog
    b = ctx.body(NT, "C11.R1")
    mk = [(s, t) for s, t in b.calls() if any(c.endswith("Iterator::min_by_key") or c.endswith("Iterator>::min_by_key") for c in b.callees_of_call(t, passed=False))]
    if not ctx.floor("C11.R1", "min_by_key in PctScheduler::next_task", len(mk), 1):
        return
    s, t = mk[0]
    fs = FlowSlicer(b, control=False)
    labs = fs.operand_labels(t["args"][0], s)
    calls = {l for l in labs if l.startswith("call:")}
    ok = "arg:2" in labs and calls <= {"call:core::slice::iter"} and not any(l.startswith("field:") for l in labs)
    ctx.ob("C11.R1", "min-over-offered-slice", ok,
           "the chosen task is min_by_key over an iterator of the offered `runnable` slice itself (no filtering, truncation or reordering): %s" % sorted(calls), loc=b.loc(s))
    key_ok = False
    for c in b.passed_callables(t):
        cb = prog.get(c)
        if cb is None:
            continue
        reads = any(kinds.mentions_field(cb, x, PRI) for x in cb.sites()) or ("U:" in str([cb.at(x) for x in cb.sites()]) and
                                                                             any("HashMap::get" in cc for x, tt in cb.calls() for cc in cb.callees_of_call(tt, passed=False)))
        key_ok |= any("HashMap::get" in cc for x, tt in cb.calls() for cc in cb.callees_of_call(tt, passed=False)) and \
            any(cc.endswith("Task::id") for x, tt in cb.calls() for cc in cb.callees_of_call(tt, passed=False))
    ctx.ob("C11.R1", "key-is-priority-of-task", key_ok, "the key is priorities.get(&task.id())", loc=b.loc(s))
    # the returned value derives from that minimum
    sl = Slicer(b, alias_defs=False)
    sl.slice_locals([0])
    ctx.ob("C11.R1", "returns-the-minimum", s in sl.sites, "next_task returns the id of that minimum", loc=b.loc(s))


def r2_priority_writes(ctx):
    prog = ctx.prog
    b = ctx.body(NT, "C11.R2")
    ins = _calls_on_field(prog, b, PRI, re.compile(r"HashMap::insert$"))
    if not ctx.floor("C11.R2", "priority map writes in next_task", len(ins), 3):
        return
    fs = FlowSlicer(b)
    n_new, n_cp = 0, 0
    for s, t in ins:
        labs = fs.guard_labels(s)
        in_new_task_loop = any(l.endswith("range::Range") and "next" in l or l.endswith("Iterator>::next") or "iter::range" in l for l in labs) and b.path_exists(s, lambda x, s=s: x == s) is not None
        cp_guard = ("field:" + P + "PctScheduler.change_points") in labs and "arg:4" in labs
        if cp_guard and not in_new_task_loop:
            n_cp += 1
            key_labs = FlowSlicer(b, control=False).operand_labels(t["args"][1], s)
            ok = "arg:3" in key_labs and "arg:2" not in key_labs
            ctx.ob("C11.R2", "demotes-only-current|#%d" % n_cp, ok,
                   "the change-point / yield branch re-prioritises exactly the `current` task" if ok else
                   "the change-point / yield branch re-prioritises a task other than the one that was running", loc=b.loc(s))
            ctx.ob("C11.R2", "needs-choice|#%d" % n_cp, any(l.endswith("::len") for l in labs) and "const:1" in labs,
                   "that branch is only taken when more than one task is offered", loc=b.loc(s))
            # a change point is never dropped: once the (change point || yield) test has succeeded, every returning path demotes
            fd = FlowSlicer(b, control=False)
            cps = set()
            for sw in control_deps(b).get(s.bb, ()):
                dl = fd.operand_labels(b.term(sw)["discr"], b.term_site(sw))
                if ("field:" + P + "PctScheduler.change_points") in dl or "arg:4" in dl:
                    cps.add(sw)
            entry = [x for x in b.dom.get(s.bb, ()) if x not in cps and any(p in cps for p in b.pred[x])]
            ok2 = False
            if cps and entry:
                x0 = max(entry, key=lambda x: len(b.dom.get(x, ())))
                ok2 = b.path_exists(Site(x0, 0), b.is_return, lambda y, s=s: y == s, start_inclusive=True) is None
            ctx.ob("C11.R2", "change-point-always-demotes|#%d" % n_cp, ok2,
                   "once the (change point || is_yielding) test has succeeded, every returning path performs the demotion (no further condition can drop the change point)" if ok2 else
                   "after the (change point || is_yielding) test has succeeded there is a returning path that skips the demotion: that change point is consumed "
                   "without demoting the task that was running (e.g. when it has just blocked), so orderings that need exactly this demotion are never produced", loc=b.loc(s))
        elif in_new_task_loop:
            n_new += 1
        else:
            ctx.ob("C11.R2", "unguarded-priority-write|%s" % b.loc(s), False,
                   "a write of the priority map in next_task is neither part of the new-task loop nor guarded by (change point || is_yielding): priorities would change at other moments",
                   loc=b.loc(s))
    # a new task must be able to end up with the lowest priority: the swap target is drawn as gen_range(0..len) + c and compared with the new
    # task's own id, which is >= len (ids are assigned densely), so the self-swap branch (new task takes next_priority, the lowest) is
    # reachable only if c >= 1
    lin2 = Lin(b)
    lin2.opaque = {"::gen_range": "draw"}
    eqs = [(s, t) for s, t in b.calls() if any(c.endswith("TaskId as core::cmp::PartialEq>::eq") for c in b.callees_of_call(t, passed=False))]
    offs = []
    for s, t in eqs:
        for a in t["args"]:
            # the compared operands are references to locals: look through the reference
            l = operand_local(a)
            ds = lin2.defs.get(l, []) if l is not None else []
            src = {"k": "copy", "pl": {"l": ds[0]["rv"]["pl"]["l"]}} if len(ds) == 1 and ds[0].get("k") == "assign" and ds[0]["rv"]["k"] == "ref" and not ds[0]["rv"]["pl"].get("p") else a
            f = lin2.op(src)
            if f is not None and f.get("draw") == 1 and set(f) <= {"draw", "const"}:
                offs.append(f.get("const", 0))
    ctx.ob("C11.R2", "new-task-can-be-lowest", bool(offs) and all(c >= 1 for c in offs),
           "the swap target of a new task is gen_range(0..len) + %s: it can coincide with the new task's own id, i.e. the new task can receive the lowest priority" % offs
           if (offs and all(c >= 1 for c in offs)) else
           "the swap target of a new task (gen_range(0..len) + %s) can never equal the new task's id (>= len): a newly created task is never the lowest-priority "
           "task, so orderings that need it to run last have probability 0" % (offs or "?"), loc=b.loc(eqs[0][0]) if eqs else b.loc())
    ctx.ob("C11.R2", "classification", n_cp == 1 and n_new >= 2, "priority writes in next_task: %d in the new-task loop, %d under the change-point/yield guard" % (n_new, n_cp), loc=b.loc())
    w = kinds.writers_of_field(prog, PRI, {"shuttle_schedulers"}, kinds=("assign", "refmut", "call_dst"))
    kinds.check_who_may(ctx, "C11.R2", "mutator of PctScheduler.priorities", set(w), {NT, NE, P + "PctScheduler::new_from_seed"})


def r3_change_points(ctx):
    prog = ctx.prog
    b = ctx.body(NE, "C11.R3")
    sm = [(s, t) for s, t in b.calls() if any(c.endswith("seq::index::sample") for c in b.callees_of_call(t, passed=False))]
    if not ctx.floor("C11.R3", "index::sample in new_execution", len(sm), 1):
        return
    s, t = sm[0]
    fs = FlowSlicer(b, control=False)
    rng = fs.operand_labels(t["args"][0], s)
    amt = fs.operand_labels(t["args"][2], s)
    ctx.ob("C11.R3", "sampled-from-own-rng", ("field:" + P + "PctScheduler.rng") in rng, "change points are sampled from the scheduler's seeded rng", loc=b.loc(s))
    ok = ("field:" + P + "PctScheduler.max_depth") in amt and any(l.endswith("cmp::min") for l in amt) and "const:1" in amt
    ctx.ob("C11.R3", "count-bounded-by-depth", ok, "the number of change points is min(max_depth - 1, max_steps - 1)", loc=b.loc(s))
    # linear form of the count: the sample's amount is (a copy of) min(x, y) where one of x, y is max_depth - c, c >= 1
    lin = Lin(b)
    bound = None
    l = operand_local(t["args"][2])
    seen = 0
    while l is not None and seen < 6:
        seen += 1
        ds = lin.defs.get(l, [])
        if len(ds) != 1:
            break
        st = ds[0]
        if st.get("k") == "call" and any(c.endswith("cmp::min") for c in b.callees_of_call(st, passed=False)):
            forms = [lin.op(a) for a in st["args"]]
            for f in forms:
                if f is not None and f.get("F:" + P + "PctScheduler.max_depth") == 1 and set(f) <= {"F:" + P + "PctScheduler.max_depth", "const"}:
                    bound = f.get("const", 0)
            break
        if st.get("k") == "assign" and st["rv"]["k"] in ("use", "cast"):
            l = operand_local(st["rv"]["ops"][0])
        else:
            break
    ctx.ob("C11.R3", "count-at-most-depth-minus-1", bound is not None and bound <= -1,
           "one operand of that min is max_depth - c with c >= 1 (at most depth-1 change points): constant term %s" % bound, loc=b.loc(s))
    cw = [x for x in b.sites() if b.at(x).get("k") in ("assign", "call") and last_field(b.at(x).get("dst", {"l": 0})) == P + "PctScheduler.change_points"]
    okw = False
    for x in cw:
        st = b.at(x)
        ops = st["args"] if st.get("k") == "call" else st["rv"].get("ops", [])
        labs = set()
        for o in ops:
            labs |= FlowSlicer(b, control=False).operand_labels(o, x)
        okw |= any(l.endswith("seq::index::sample") for l in labs)
    ctx.ob("C11.R3", "change_points-from-sample", okw, "self.change_points is assigned from that sample", loc=b.loc())
    w = kinds.writers_of_field(prog, P + "PctScheduler.change_points", {"shuttle_schedulers"}, kinds=("assign", "refmut", "call_dst"))
    kinds.check_who_may(ctx, "C11.R3", "writer of change_points", set(w), {NE})


def r4_budget(ctx):
    prog = ctx.prog
    b = ctx.body(NE, "C11.R4")
    IT = P + "PctScheduler.iterations"
    inc = [s for s, st in b.assigns() if last_field(st["dst"]) == IT]
    somes = [s for s, st in b.assigns() if st["dst"]["l"] == 0 and st["rv"]["k"] == "aggr" and st["rv"].get("variant") == "Some"]
    nones = [s for s, st in b.assigns() if st["dst"]["l"] == 0 and st["rv"]["k"] == "aggr" and st["rv"].get("variant") == "None"]
    ok = len(inc) == 1 and bool(somes) and all(b.site_dominates(inc[0], s) for s in somes) and b.path_exists(inc[0], lambda x: x == inc[0]) is None
    ctx.ob("C11.R4", "iterations-once-per-execution", ok, "iterations is incremented exactly once on the path that starts an execution", loc=b.loc())
    fs = FlowSlicer(b)
    okn = bool(nones) and all(("field:" + IT) in fs.guard_labels(s) and ("field:" + P + "PctScheduler.max_iterations") in fs.guard_labels(s) for s in nones)
    ctx.ob("C11.R4", "stops-at-budget", okn, "None is returned under the test iterations >= max_iterations", loc=b.loc())


RULES = [("C11.R1", r1_choice), ("C11.R2", r2_priority_writes), ("C11.R3", r3_change_points), ("C11.R4", r4_budget)]
