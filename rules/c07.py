"""C07 — thread lifecycle: order inside thread_fn / Wrapper::finish (K2), join (K2), TLS order and tombstones (K1+K3),
scope (K3/K4), ids (K6). Type-level witnesses (K10) run in the thorough tier."""
import re

from engine import kinds
from engine.facts import Site, Slicer, norm, operand_local, control_deps, last_field
from engine.slicing import FlowSlicer, expand_closure_labels
from rules.c18 import _calls_on_field
from rules.c15 import family, calls_in
from rules.c05 import _with_sites, in_cycle

CRATES = {"shuttle_engine", "shuttle_std", "shuttle"}
EXPLANATION = (
    "Static decision of structural clauses of C07. (R1) in thread_fn the user closure is called, then the thread-local "
    "destructor loop runs, then the result is stored, then the joiner is woken — each step dominates the next; the async "
    "Wrapper::finish has the same order (C17.R3). (R2) JoinHandle::join takes the result only after registering as waiter / "
    "observing the target finished. (R3) StorageMap::init appends the key at the back of `order`, pop takes from the front "
    "and leaves a tombstone (None) in the map, get maps a tombstone to AlreadyDestructedError, init refuses an occupied key; "
    "LocalKey::get reads the *current* task's storage only. (R4) scope blocks its owner while scoped threads run, and a scoped "
    "thread unblocks the owner exactly on the 1->0 edge of the counter. (R5) ExecutionState.tasks is never shrunk outside "
    "cleanup (ids stay unique within an execution; ids = tasks.len() is C01.R5).")
NOT_DECIDED = "orderings that depend on when the joiner is scheduled; exactly-once execution of closures as a runtime fact (type-level: witnesses W1/W2)"
ASSUMPTIONS = ["closures are run where they are passed"]

T = "shuttle_engine::runtime::task::"
E = "shuttle_engine::runtime::execution::"
ES = E + "ExecutionState::"
SM = "shuttle_engine::runtime::storage::StorageMap"


def r1_thread_fn_order(ctx):
    prog = ctx.prog
    b = ctx.body("shuttle_engine::thread_support::thread_fn", "C07.R1")
    fcall = [s for s, t in b.calls() if any(c.endswith("FnOnce>::call_once") or c.endswith("FnOnce::call_once") for c in b.callees_of_call(t, passed=False))
             and operand_local(t["args"][0]) is not None and b.local_ty(operand_local(t["args"][0])) == "F"]
    pops = _with_sites(prog, b, T + "Task::pop_local")
    store = [s for s, st in b.assigns() if "*" in st["dst"].get("p", []) and not b.in_tracing(s) and
             ("Result" in str(st["rv"]) or "Some" in str(st["rv"].get("variant", "")) or st["rv"]["k"] == "use")
             and "Option<core::result::Result" in b.local_ty(st["rv"]["ops"][0]["pl"]["l"] if st["rv"].get("ops") and st["rv"]["ops"][0].get("pl") else 0)]
    wake = _with_sites(prog, b, T + "Task::take_waiter")
    if not (ctx.floor("C07.R1", "call of the thread body in thread_fn", len(fcall), 1) and ctx.floor("C07.R1", "pop_local loop in thread_fn", len(pops), 1)
            and ctx.floor("C07.R1", "result store in thread_fn", len(store), 1) and ctx.floor("C07.R1", "take_waiter in thread_fn", len(wake), 1)):
        return
    F, L, R, U = fcall[0], pops[0], store[0], wake[0]
    ctx.ob("C07.R1", "body-then-destructors", b.site_dominates(F, L) and in_cycle(b, L), "the thread-local destructor loop runs after the thread's closure returned", loc=b.loc(L))
    ctx.ob("C07.R1", "destructors-then-result", b.site_dominates(L, R) and b.path_exists(R, lambda x: x == L) is None,
           "the result is published only after the destructor loop has finished" if b.site_dominates(L, R) and b.path_exists(R, lambda x: x == L) is None else
           "the result is published before (or inside) the thread-local destructor loop: join could return while destructors still run", loc=b.loc(R))
    ctx.ob("C07.R1", "result-then-wake", b.site_dominates(R, U), "the joiner is unblocked only after the result has been stored", loc=b.loc(U))
    fs = FlowSlicer(b)
    la = fs.operand_labels(b.at(R)["rv"]["ops"][0], R)
    ctx.ob("C07.R1", "result-is-body-value", any(l.endswith("FnOnce>::call_once") or l.endswith("FnOnce::call_once") for l in la), "the stored result is the value returned by the thread's closure", loc=b.loc(R))
    n_f = len(fcall)
    ctx.ob("C07.R1", "body-called-once", n_f == 1 and not in_cycle(b, F), "thread_fn calls the closure at one site outside any loop", loc=b.loc(F))


def r2_join(ctx):
    prog = ctx.prog
    j = ctx.body("shuttle_std::thread::JoinHandle::join", "C07.R2")
    takes = [s for s, t in j.calls() if any(c.endswith("Option::take") for c in j.callees_of_call(t, passed=False))]
    sw = _with_sites(prog, j, T + "Task::set_waiter")
    ok = bool(takes) and bool(sw) and j.site_dominates(sw[0], takes[0])
    ctx.ob("C07.R2", "take-after-set_waiter", ok, "join takes the result only after it registered as the target's waiter (or saw it finished)", loc=j.loc())
    st = ctx.body(T + "Task::set_waiter", "C07.R2")
    fs = FlowSlicer(st)
    wr = [s for s, s2 in st.assigns() if last_field(s2["dst"]) == T + "Task.waiter"]
    ok = bool(wr) and ("call:" + T + "Task::finished") in fs.guard_labels(wr[0])
    ctx.ob("C07.R2", "set_waiter-false-iff-finished", ok, "set_waiter registers the waiter (and returns true) only when the target has not finished", loc=st.loc())
    exp = [s for s, t in j.calls() if any(c.endswith("Option::expect") or c.endswith("Option::unwrap") for c in j.callees_of_call(t, passed=False))]
    ctx.ob("C07.R2", "result-required", bool(exp), "join requires the result to be present (a join that returns early panics instead of inventing a value)", loc=j.loc())


def r3_storage(ctx):
    prog = ctx.prog
    ini = ctx.body(SM + "::init", "C07.R3")
    pop = ctx.body(SM + "::pop", "C07.R3")
    get = ctx.body(SM + "::get", "C07.R3")
    # order-preserving queue discipline, whatever the container: append at the back; take the front with an operation that keeps the rest in order
    pb = _calls_on_field(prog, ini, SM + ".order", re.compile(r"(VecDeque::push_back|Vec::push)$"))
    pf = _calls_on_field(prog, ini, SM + ".order", re.compile(r"(VecDeque::push_front|Vec::insert|VecDeque::insert)$"))
    ctx.ob("C07.R3", "init-appends", bool(pb) and not pf, "StorageMap::init appends the new key at the back of the destruction order", loc=ini.loc())
    ppf = _calls_on_field(prog, pop, SM + ".order", re.compile(r"VecDeque::pop_front$"))
    rm0 = [(s, t) for s, t in _calls_on_field(prog, pop, SM + ".order", re.compile(r"(Vec|VecDeque)::remove$")) if kinds.operand_const(pop, t["args"][1]) == 0]
    reorder = _calls_on_field(prog, pop, SM + ".order", re.compile(r"(VecDeque::pop_back|Vec::pop|swap_remove|swap_remove_back|swap_remove_front|Vec::swap|VecDeque::swap|sort|reverse|rotate_\w+)$"))
    ok_front = bool(ppf or rm0) and not reorder
    ctx.ob("C07.R3", "pop-takes-front", ok_front,
           "StorageMap::pop destroys in initialisation order (takes the front and keeps the rest in order)" if ok_front else
           "StorageMap::pop does not take the oldest key with an order-preserving operation%s: destructors would not run in initialisation order"
           % (" (%s)" % sorted({c.split("::")[-1] for s, t in reorder for c in pop.callees_of_call(t, passed=False)})[0] if reorder else ""), loc=pop.loc())
    tk = [s for s, t in pop.calls() if any(c.endswith("Option::take") for c in pop.callees_of_call(t, passed=False))]
    rm = _calls_on_field(prog, pop, SM + ".locals", re.compile(r"HashMap::remove$"))
    ctx.ob("C07.R3", "pop-leaves-tombstone", bool(tk) and not rm,
           "pop takes the value out and leaves a None tombstone (access after destruction is an error, not a re-initialisation)", loc=pop.loc())
    err = [s for s, st in family_assigns(prog, get) if "AlreadyDestructedError" in str(st["rv"])]
    ctx.ob("C07.R3", "get-reports-tombstone", bool(err), "StorageMap::get maps a tombstone to AlreadyDestructedError", loc=get.loc())
    div = [s for s, t in ini.calls() if t.get("target") is None]
    ins = _calls_on_field(prog, ini, SM + ".locals", re.compile(r"HashMap::insert$"))
    ok = bool(div) and bool(ins)
    if ok:
        labs = FlowSlicer(ini).guard_labels(div[0])
        ok = any(l.endswith("HashMap::insert") for l in labs)
    ctx.ob("C07.R3", "init-refuses-occupied", ok, "StorageMap::init panics when the slot was already initialised", loc=ini.loc())
    lg = "shuttle_engine::thread_support::LocalKey::get"
    lb = ctx.body(lg, "C07.R3")
    reach = prog.may_reach([lg])
    ctx.ob("C07.R3", "local-key-reads-current", (ES + "current") in reach and (T + "Task::local") in reach and (ES + "get") not in (set(prog.callgraph.get(lg, ())) | set(c for k in prog.callgraph.get(lg, ()) for c in prog.callgraph.get(k, ()))),
           "LocalKey::get reads the storage of the current task only", loc=lb.loc())
    for fld in ("locals", "order"):
        w = kinds.writers_of_field(prog, SM + "." + fld, {"shuttle_engine"}, kinds=("assign", "refmut", "call_dst"))
        kinds.check_who_may(ctx, "C07.R3", "mutator of StorageMap." + fld, set(w), {SM + "::new", SM + "::init", SM + "::pop"})


def family_assigns(prog, b):
    out = []
    for c in family(prog, b.nkey):
        for s, st in c.assigns():
            out.append((s, st))
    return out


def r4_scope(ctx):
    prog = ctx.prog
    sc = ctx.body("shuttle_std::thread::scope", "C07.R4")
    bl = _with_sites(prog, sc, T + "Task::block")
    fs = FlowSlicer(sc)
    ok = bool(bl) and ("field:shuttle_std::thread::Scope.num_running_threads") in fs.guard_labels(bl[0])
    ctx.ob("C07.R4", "scope-waits", ok, "scope blocks its owner under a test of the running-thread counter", loc=sc.loc())
    fcall = [s for s, t in sc.calls() if any(c.endswith("FnOnce>::call_once") or c.endswith("FnOnce::call_once") for c in sc.callees_of_call(t, passed=False))]
    ctx.ob("C07.R4", "scope-body-first", bool(fcall) and bool(bl) and sc.site_dominates(fcall[0], bl[0]), "the wait happens after the scope body returned", loc=sc.loc())
    cl = [b for b in prog.all_bodies({"shuttle_std"}) if b.parent == "shuttle_std::thread::Scope::spawn"]
    ok = False
    for b in cl:
        ub = _with_sites(prog, b, T + "Task::unblock")
        if ub:
            labs = FlowSlicer(b).guard_labels(ub[0])
            ok |= any(l.endswith("::fetch_sub") for l in labs) and "const:1" in labs
    ctx.ob("C07.R4", "last-thread-unblocks-owner", ok, "a scoped thread unblocks the scope owner exactly when fetch_sub returns 1 (the 1 -> 0 edge)", loc=sc.loc())
    sp = ctx.body("shuttle_std::thread::Scope::spawn", "C07.R4")
    inc = [s for s, t in sp.calls() if any(c.endswith("::fetch_add") for c in sp.callees_of_call(t, passed=False))]
    spn = [s for s, t in sp.calls() if "shuttle_std::thread::spawn_named_unchecked" in sp.callees_of_call(t, passed=False)]
    ctx.ob("C07.R4", "count-before-spawn", bool(inc) and bool(spn) and sp.site_dominates(inc[0], spn[0]), "the counter is incremented before the scoped thread is spawned", loc=sp.loc())


def r5_ids(ctx):
    prog = ctx.prog
    TASKS = E + "ExecutionState.tasks"
    shrink = re.compile(r"SmallVec::(remove|pop|clear|truncate|drain|swap_remove|retain|dedup)$")
    bad = []
    takes = set()
    for b in prog.all_bodies({"shuttle_engine"}):
        for s, t in _calls_on_field(prog, b, TASKS, shrink):
            bad.append((b, s))
        for s, t in b.calls():
            if "core::mem::take" in b.callees_of_call(t, passed=False) and ("field:" + TASKS) in Slicer(b, alias_defs=False).slice_operand(t["args"][0])[0]:
                takes.add(kinds.root_fn(prog, b.nkey))
    ctx.ob("C07.R5", "tasks-never-shrunk", not bad, "ExecutionState.tasks is never shrunk during an execution (task ids stay unique)" if not bad else
           "`%s` removes from ExecutionState.tasks: a later spawn would reuse an id" % bad[0][0].nkey, loc=bad[0][0].loc(bad[0][1]) if bad else None)
    kinds.check_who_may(ctx, "C07.R5", "function taking the whole task list", takes, {ES + "cleanup"}, required={ES + "cleanup"})


def r6_one_slot_at_a_time(ctx):
    """"access during or after destruction is reported as an error" — and only then.  StorageMap::pop is what marks a slot as destroyed
    (it takes the value out and leaves the tombstone), so a slot may be popped only when its destructor is about to run: in every loop
    that pops, the popped value is dropped before the next pop.  Popping all slots first and dropping them afterwards makes every
    later-initialised thread-local look destroyed while an earlier one's destructor is still running."""
    prog = ctx.prog
    POPS = {SM + "::pop", T + "Task::pop_local"}
    n = 0
    for b in prog.all_bodies({"shuttle_engine", "shuttle_std", "shuttle"}):
        if b.parent or "::tests::" in b.nkey:
            continue
        sites = [s for s, t in b.calls() if (b.callees_of_call(t, passed=False) & POPS) or
                 any(prog.may_reach([c]) & POPS or c in POPS for c in b.passed_callables(t))]
        if not sites:
            continue
        drops = set()
        for s in b.sites():
            st = b.at(s)
            if st.get("k") == "drop" and "dyn core::any::Any" in st.get("ty", ""):
                drops.add(s)
            if st.get("k") == "call" and any(c == "core::mem::drop" or c.startswith("core::mem::drop") for c in b.callees_of_call(st, passed=False)):
                a = st.get("args") or []
                if a and a[0].get("k") in ("move", "copy") and "dyn core::any::Any" in (b.local_ty(a[0]["pl"]["l"]) or ""):
                    drops.add(s)
        for i, p in enumerate(sites):
            if b.path_exists(p, lambda x, p=p: x == p) is None:
                continue        # not in a loop
            n += 1
            w = b.path_exists(p, lambda x, p=p: x == p, lambda x: x in drops)
            ctx.ob("C07.R6", "drop-before-next-pop|%s|#%d" % (b.nkey, i), w is None,
                   "`%s`: the value popped from the thread-local storage is dropped before the loop pops the next slot" % b.nkey if w is None else
                   "`%s` pops the next thread-local slot before the previously popped value has been dropped: slots are marked destroyed before "
                   "their destructor's turn, so a destructor sees later-initialised thread-locals as already destroyed" % b.nkey, loc=b.loc(p))
    ctx.floor("C07.R6", "loops that pop thread-local / per-execution storage", n, 2)
    # the loop discipline above can only be seen where the loop is in this workspace's code; a pop handed to a library iterator
    # (`iter::from_fn(|| pop()).collect()`) drains every slot out of sight.  So the set of functions that pop is closed:
    callers = {kinds.root_fn(prog, k) for p in POPS for k in kinds.callers(prog, p, passed=True)}
    kinds.check_who_may(ctx, "C07.R6", "function popping thread-local / per-execution storage", callers,
                        {T + "Task::pop_local": "one-slot accessor used by the two destructor loops",
                         "shuttle_engine::thread_support::thread_fn": "destructor loop of threads (checked above)",
                         "shuttle_std::future::Wrapper::finish": "destructor loop of futures (checked above)",
                         ES + "cleanup": "drains the per-execution storage at the end of an execution (checked above)"}, helpers=False)


RULES = [("C07.R1", r1_thread_fn_order), ("C07.R2", r2_join), ("C07.R3", r3_storage), ("C07.R4", r4_scope), ("C07.R5", r5_ids), ("C07.R6", r6_one_slot_at_a_time)]
