"""C05 — Condvar, Barrier, Once, park/unpark (narrow): required-effects table, each entry a necessary condition."""
import re

from engine import kinds
from engine.facts import Site, Slicer, norm, operand_local, control_deps, last_field
from engine.slicing import FlowSlicer, expand_closure_labels
from rules.c18 import _calls_on_field
from rules.c15 import family, calls_in

CRATES = {"shuttle_engine", "shuttle_std"}
EXPLANATION = (
    "Static decision of necessary conditions of C05 (required-effects table). Condvar::wait: the mutex guard is released and the "
    "caller is pushed onto the waiter list before it blocks itself; every normal return re-acquires the mutex; the Signal branch "
    "removes the consumed epoch from the other waiters inside a loop and re-blocks waiters left without a signal. notify_one/"
    "notify_all: the unblock is inside the loop over the waiter list; notify_one advances next_epoch exactly once on every path. "
    "Barrier::wait: the arriver is inserted before the bound test; the releasing branch inserts the leader token for the epoch it "
    "read *before* incrementing epoch, unblocks inside the loop over the drained waiters, and is_leader is the result of removing "
    "that token. Once: the initializer is called only on the branch where the flag was clear, and the flag / Complete state are "
    "written only after it returned. park/unpark: ParkState is written only by Task::{park,unpark,unblock}. (block => yield for all "
    "of these is C03.R3; the choice point before each operation is C02.)")
NOT_DECIDED = ("absence of lost or phantom wake-ups over all interleavings (racing notifies, reused barriers, notify before wait) — "
               "this is the bulk of the property and is not decided statically")
ASSUMPTIONS = ["closures are run where they are passed"]

T = "shuttle_engine::runtime::task::"
ES = "shuttle_engine::runtime::execution::ExecutionState::"
C = "shuttle_std::sync::condvar::"
ICC = {ES + "with", ES + "try_with"}


def _with_sites(prog, b, target):
    """Call sites of b that directly call `target` or run a closure that reaches it."""
    out = []
    for s, t in b.calls():
        cs = b.callees_of_call(t, passed=False)
        if target in cs or target in prog.may_reach(list(b.passed_callables(t))):
            out.append(s)
    return out


def in_cycle(b, s):
    return b.path_exists(s, lambda x: x == s) is not None


def condvar(ctx):
    prog = ctx.prog
    w = ctx.body(C + "Condvar::wait", "C05.CV")
    blocks = _with_sites(prog, w, T + "Task::block")
    # the first self-block (current_mut) in program order: the one that all later sites are dominated by
    self_block = [s for s in blocks if all(w.site_dominates(s, x) or s == x for x in blocks)]
    if not ctx.floor("C05.CV", "self-block in Condvar::wait", len(self_block), 1):
        return
    SB = self_block[0]
    unl = [s for s, t in w.calls() if "shuttle_std::sync::mutex::MutexGuard::unlock" in w.callees_of_call(t, passed=False)]
    ctx.ob("C05.CV", "wait-releases-before-block", bool(unl) and w.site_dominates(unl[0], SB),
           "Condvar::wait releases the mutex guard before blocking itself", loc=w.loc(SB))
    rel_reach = "shuttle_engine::future::batch_semaphore::BatchSemaphore::release" in prog.may_reach(["shuttle_std::sync::mutex::MutexGuard::unlock"])
    ctx.ob("C05.CV", "unlock-releases", rel_reach, "MutexGuard::unlock releases the mutex's semaphore (through the guard's Drop)", loc=w.loc())
    push = _calls_on_field(prog, w, C + "CondvarState.waiters", re.compile(r"Vec::push$"))
    ctx.ob("C05.CV", "wait-enqueues-before-block", bool(push) and w.site_dominates(push[0][0], SB),
           "Condvar::wait registers itself in the waiter list before blocking (a notify issued after the release finds it)", loc=w.loc(SB))
    lock = lambda s: prog.site_calls(w, s, {"shuttle_std::sync::mutex::Mutex::lock"})
    ctx.ob("C05.CV", "wait-relocks", w.path_exists(None, w.is_return, lock) is None, "every normal return of Condvar::wait re-acquires the mutex", loc=w.loc())
    rem = [s for s, t in w.calls() if any(c.endswith("VecDeque::remove") for c in w.callees_of_call(t, passed=False))]
    ret = [s for s, t in w.calls() if any(c.endswith("VecDeque::retain") for c in w.callees_of_call(t, passed=False))]
    ctx.ob("C05.CV", "signal-consumed-from-others", bool(rem or ret) and all(in_cycle(w, s) for s in rem + ret),
           "the Signal branch removes the consumed epoch from the other waiters inside the loop over the waiter list", loc=w.loc())
    # the consumed epoch can sit anywhere in another waiter's queue (a later arrival consumes a later epoch first), so it has to be
    # searched for, not taken from a fixed end
    fsw = FlowSlicer(w, control=False)
    by_search = all(any(l.endswith("Iterator::position") or l.endswith("Iterator>::position") for l in fsw.operand_labels(w.at(s)["args"][1], s)) for s in rem)
    ends = [s for s, t in w.calls() if in_cycle(w, s) and any(c.endswith(("VecDeque::pop_front", "VecDeque::pop_back")) for c in w.callees_of_call(t, passed=False))]
    ctx.ob("C05.CV", "consumed-epoch-found-by-search", bool(rem or ret) and by_search and not ends,
           "inside that loop the epoch to delete is located by a search over the whole queue (position / retain), never popped from an end" if (by_search and not ends) else
           "inside the loop over the other waiters an epoch is taken from a fixed end of the queue (or at an index that is not the result of a search): "
           "a later waiter that consumed a later epoch leaves it pending in earlier waiters, and one notify_one releases two of them", loc=w.loc((ends or rem or [None])[0]))
    reblock = [s for s in blocks if s != SB]
    ctx.ob("C05.CV", "others-reblocked", bool(reblock) and all(in_cycle(w, s) for s in reblock),
           "waiters left without a pending signal are blocked again (inside that loop)", loc=w.loc())
    for f in ("notify_one", "notify_all"):
        b = ctx.body(C + "Condvar::" + f, "C05.CV")
        ub = _with_sites(prog, b, T + "Task::unblock")
        ctx.ob("C05.CV", "notify-unblocks-in-loop|" + f, bool(ub) and all(in_cycle(b, s) for s in ub),
               "Condvar::%s unblocks inside the loop over the waiter list (every eligible waiter is released)" % f if ub and all(in_cycle(b, s) for s in ub) else
               "Condvar::%s unblocks outside the loop over the waiters: only one fixed waiter would be released" % f, loc=b.loc())
    n1 = prog.get(C + "Condvar::notify_one")
    if n1 is not None:
        NE = C + "CondvarState.next_epoch"
        wr = [s for s in n1.sites() if n1.at(s).get("k") == "assign" and last_field(n1.at(s)["dst"]) == NE]
        ok = len(wr) == 1 and not in_cycle(n1, wr[0]) and n1.path_exists(None, n1.is_return, lambda x: x == wr[0]) is None
        ctx.ob("C05.CV", "epoch-advanced-once", ok, "notify_one advances next_epoch exactly once on every path (each notify_one is a distinct signal)", loc=n1.loc())


def barrier(ctx):
    prog = ctx.prog
    Bk = "shuttle_std::sync::barrier::"
    b = ctx.body(Bk + "Barrier::wait", "C05.BR")
    ins = _calls_on_field(prog, b, Bk + "BarrierState.waiters", re.compile(r"HashSet::insert$"))
    blocks = _with_sites(prog, b, T + "Task::block")
    unb = _with_sites(prog, b, T + "Task::unblock")
    if not (ctx.floor("C05.BR", "waiters.insert in Barrier::wait", len(ins), 1) and ctx.floor("C05.BR", "self-block in Barrier::wait", len(blocks), 1)
            and ctx.floor("C05.BR", "unblock in Barrier::wait", len(unb), 1)):
        return
    I = ins[0][0]
    ctx.ob("C05.BR", "arrival-before-test", b.site_dominates(I, blocks[0]) and b.site_dominates(I, unb[0]),
           "the arriver is inserted into the waiter set before the bound test decides between blocking and releasing", loc=b.loc(I))
    fs = FlowSlicer(b)
    labs = fs.guard_labels(blocks[0])
    ctx.ob("C05.BR", "block-guard", ("field:" + Bk + "BarrierState.bound") in labs and ("field:" + Bk + "BarrierState.waiters") in labs,
           "blocking vs. releasing is decided by waiters.len() against bound", loc=b.loc(blocks[0]))
    tok = _calls_on_field(prog, b, Bk + "BarrierState.leader_tokens", re.compile(r"HashSet::insert$"))
    ep_w = [s for s in b.sites() if b.at(s).get("k") == "assign" and last_field(b.at(s)["dst"]) == Bk + "BarrierState.epoch"]
    ok = bool(tok) and bool(ep_w) and all(b.site_dominates(tok[0][0], e) for e in ep_w)
    ctx.ob("C05.BR", "leader-token-before-epoch-increment", ok,
           "the releasing branch inserts the leader token before incrementing the epoch" if ok else
           "the leader token is inserted after the epoch was incremented: the token would belong to the next generation", loc=b.loc())
    if tok:
        la = fs.operand_labels(b.term(tok[0][0].bb)["args"][1], tok[0][0])
        ep_reads = [s for s, st in b.assigns() if st["rv"]["k"] == "use" and st["rv"]["ops"][0].get("k") in ("copy", "move")
                    and last_field(st["rv"]["ops"][0]["pl"]) == Bk + "BarrierState.epoch"]
        ok2 = ("field:" + Bk + "BarrierState.epoch") in la and bool(ep_reads) and all(b.site_dominates(ep_reads[0], e) for e in ep_w)
        ctx.ob("C05.BR", "token-is-pre-increment-epoch", ok2, "the token is the epoch value read before the increment (my_epoch)", loc=b.loc(tok[0][0]))
    okl = False
    for c in family(prog, b.nkey):
        ub = [s for s, t in c.calls() if T + "Task::unblock" in c.callees_of_call(t, passed=False)]
        if ub:
            okl = all(in_cycle(c, s) for s in ub)
    ctx.ob("C05.BR", "release-unblocks-in-loop", okl, "the releasing arrival unblocks inside the loop over the drained waiters (exactly that group)", loc=b.loc())
    dr = _calls_on_field(prog, b, Bk + "BarrierState.waiters", re.compile(r"HashSet::drain$"))
    ctx.ob("C05.BR", "release-drains", bool(dr), "the released group is the drained waiter set", loc=b.loc())
    res = [(s, st) for s, st in b.assigns() if st["rv"]["k"] == "aggr" and norm(st["rv"].get("adt", "")) == Bk + "BarrierWaitResult"]
    ok = False
    for s, st in res:
        la = fs.operand_labels(st["rv"]["ops"][0], s)
        ok |= any(l.endswith("HashSet::remove") for l in la) and ("field:" + Bk + "BarrierState.leader_tokens") in la
    ctx.ob("C05.BR", "leader-is-token-removal", ok, "is_leader is the result of removing the generation's token (exactly one leader per generation)", loc=b.loc())


def once(ctx):
    prog = ctx.prog
    O = "shuttle_std::sync::once::"
    b = ctx.body(O + "Once::call_once_inner", "C05.ON")
    fcall = [s for s, t in b.calls() if any(c.endswith("FnOnce::call_once") or c.endswith("FnOnce>::call_once") for c in b.callees_of_call(t, passed=False))
             and operand_local(t["args"][0]) is not None and b.local_ty(operand_local(t["args"][0])) == "F"]
    if not ctx.floor("C05.ON", "call of the user initializer in call_once_inner", len(fcall), 1):
        return
    F = fcall[0]
    flag_w = [s for s, st in b.assigns() if "*" in st["dst"].get("p", []) and st["rv"]["k"] == "use" and st["rv"]["ops"][0].get("ev") == 1 and "bool" in str(st["rv"]["ops"][0].get("ty", ""))]
    comp = []
    for c in family(prog, b.nkey):
        for s, st in c.assigns():
            if st["rv"]["k"] == "aggr" and st["rv"].get("variant") == "Complete":
                comp.append(c)
    ok = bool(flag_w) and all(b.site_dominates(F, s) for s in flag_w)
    ctx.ob("C05.ON", "flag-after-initializer", ok, "the `done` flag is set only after the initializer returned", loc=b.loc(F))
    comp_sites = [s for s, t in b.calls() if any(cc.nkey in b.passed_callables(t) for cc in comp)]
    ok = bool(comp_sites) and all(b.site_dominates(F, s) for s in comp_sites)
    ctx.ob("C05.ON", "complete-after-initializer", ok, "the state becomes Complete only after the initializer returned (no caller can observe completion early)", loc=b.loc())
    fs = FlowSlicer(b)
    labs = fs.guard_labels(F)
    ok = any(l.endswith("Mutex::lock") for l in labs) or any("MutexGuard" in l and "deref" in l.lower() for l in labs)
    ctx.ob("C05.ON", "initializer-guarded-by-flag", ok, "the initializer runs under the cell's mutex and only on the branch where the flag was clear", loc=b.loc(F))
    lk = [s for s, t in b.calls() if "shuttle_std::sync::mutex::Mutex::lock" in b.callees_of_call(t, passed=False)]
    ctx.ob("C05.ON", "initializer-under-lock", bool(lk) and b.site_dominates(lk[0], F), "the initializer is called while holding the cell's mutex (losers wait until it has finished)", loc=b.loc())


def park(ctx):
    prog = ctx.prog
    # the token is set by unpark and consumed by park, nothing else touches it: a generic `unblock` (used by every primitive) must not
    # discard a pending token, or an unpark delivered before the target blocked on something else is lost
    allowed = {"token_available": {T + "Task::park", T + "Task::unpark"},
               "blocked_in_park": {T + "Task::park", T + "Task::unpark", T + "Task::unblock"}}
    for fld in ("token_available", "blocked_in_park"):
        w = kinds.writers_of_field(prog, T + "ParkState." + fld, None, kinds=("assign", "call_dst", "refmut"))
        kinds.check_who_may(ctx, "C05.PK", "writer of ParkState." + fld, set(w), allowed[fld],
                            {k: v[0][0].loc(v[0][1]) for k, v in w.items()})
    # ... including by overwriting the whole ParkState (only the constructors build one)
    ww = kinds.writers_of_field(prog, T + "Task.park_state", None, kinds=("assign", "call_dst", "refmut"))
    ww = {k: v for k, v in ww.items() if any(last_field(b.at(s).get("dst", {"l": 0})) == T + "Task.park_state" or kind == "refmut" for b, s, kind in v)}
    kinds.check_who_may(ctx, "C05.PK", "function replacing a task's whole ParkState", set(ww), {T + "Task::new"},
                        {k: v[0][0].loc(v[0][1]) for k, v in ww.items()})
    pk = ctx.body(T + "Task::park", "C05.PK")
    fs = FlowSlicer(pk)
    bl = [s for s, t in pk.calls() if T + "Task::block" in pk.callees_of_call(t, passed=False)]
    ok = bool(bl) and ("field:" + T + "ParkState.token_available") in fs.guard_labels(bl[0])
    ctx.ob("C05.PK", "park-consumes-token", ok, "Task::park blocks only when no unpark token is available", loc=pk.loc())
    tw = [s for s, st in pk.assigns() if last_field(st["dst"]) == T + "ParkState.token_available" and st["rv"]["k"] == "use" and st["rv"]["ops"][0].get("ev") == 0]
    ctx.ob("C05.PK", "token-cleared", bool(tw), "a consumed token is cleared (tokens do not accumulate)", loc=pk.loc())
    up = ctx.body(T + "Task::unpark", "C05.PK")
    fsu = FlowSlicer(up)
    ub = [s for s, t in up.calls() if T + "Task::unblock" in up.callees_of_call(t, passed=False)]
    ok = bool(ub) and ("field:" + T + "ParkState.blocked_in_park") in fsu.guard_labels(ub[0])
    ctx.ob("C05.PK", "unpark-releases-parked", ok, "Task::unpark unblocks a task that is blocked in park, otherwise stores one token", loc=up.loc())
    tp = ctx.body("shuttle_std::thread::Thread::unpark", "C05.PK")
    ctx.ob("C05.PK", "thread-unpark-reaches", T + "Task::unpark" in prog.may_reach([tp.nkey]), "Thread::unpark reaches Task::unpark of the target", loc=tp.loc())


RULES = [("C05.CV", condvar), ("C05.BR", barrier), ("C05.ON", once), ("C05.PK", park)]
