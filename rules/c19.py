"""C19 — tokio replacements (narrow): receive paths return capacity (K6+K11), send path (K11),
strictly-fair constant (K8), guard/permit accounting (K11), close semantics (K3/K4), delegation (K1)."""
from engine import kinds
from engine.absint import Interp, Config, net_effects, fmt_effects, fmt_amt, Overflow
from engine.facts import Site, norm, operand_local, control_deps, Slicer

CRATES = {"shuttle_engine", "shuttle_std", "shuttle", "shuttle_tokio_impl_inner"}
EXPLANATION = (
    "Static decision of structural clauses of C19 on the MIR (async bodies before the generator transform) of the tokio "
    "wrapper crate. (R1) every function of the receiver that takes a message out of the channel (found by query: calls "
    "Channel::recv) returns one send permit on every path on which a message was obtained and the channel may be bounded "
    "— decided by the permit typestate interpreter over recv/try_recv/blocking_recv; (R2) a successful send holds one send "
    "permit when bounded and releases one receive permit, a failed one releases none; (R3) every BatchSemaphore built in the "
    "crate is StrictlyFair; (R4) every guard/permit type releases in Drop exactly what was held when it was built, failed "
    "try_* build nothing and hold nothing, downgrade releases held-1, split/merge/forget touch no semaphore; (R5) last-sender "
    "drop closes the send side and, when empty, the receive side; draining the last message closes the receive side; "
    "(R6) task spawn/JoinHandle/abort forward to shuttle's future module.")
NOT_DECIDED = "Notify / watch / oneshot contracts; absence of deadlock or panic in arbitrary tokio programs; ordering of deliveries"
ASSUMPTIONS = ["BatchSemaphore semantics (C18)", "a failed async/blocking acquire can only mean the semaphore was closed"]

T = "shuttle_tokio_impl_inner::sync::"
CH = T + "mpsc::Channel"
CH_RECV = CH + "::recv"
CH_SEND = CH + "::send"
IS_BOUNDED = CH + "::is_bounded"
SEND_SEM = ("field", CH + ".send_semaphore")
RECV_SEM = ("field", CH + ".recv_semaphore")


def _ret_name(o):
    r = o["ret"]
    if r and r[0] in ("adtv", "enum"):
        return r[2]
    return str(r)


def r1_receive_paths(ctx):
    prog = ctx.prog
    fam = []
    for b in prog.all_bodies({"shuttle_tokio_impl_inner"}):
        if b.nkey == CH_RECV:
            continue
        if any(CH_RECV in b.callees_of_call(t, passed=False) for s, t in b.calls()):
            fam.append(b)
    ctx.floor("C19.R1", "functions that take a message out of the channel (call Channel::recv)", len(fam), 3)
    it = Interp(prog, Config(opaque_opt={CH_RECV: "msg"}, queries={IS_BOUNDED: "bounded"}))
    for b in sorted(fam, key=lambda x: x.nkey):
        try:
            outs = it.summary(b.nkey)
        except Overflow as e:
            ctx.ob("C19.R1", "outcomes|" + b.nkey, False, "abstract interpretation did not converge: %s" % e, loc=b.loc())
            continue
        n_msg = 0
        bad = []
        for o in outs:
            got = [k for k, v in o["facts"].items() if isinstance(k, str) and k.startswith("msg@") and v is True]
            if not got:
                continue
            if o["facts"].get("bounded") is False:
                continue
            n_msg += 1
            rels = [ev for ev in o["effects"] if ev[0] == "rel" and ev[1] == SEND_SEM and ev[2] == ("c", 1)]
            if len(rels) != 1:
                bad.append(o)
        ctx.ob("C19.R1", "returns-capacity|" + b.nkey, n_msg >= 1 and not bad,
               ("`%s`: every outcome that obtained a message on a possibly bounded channel releases one send permit (%d such outcomes)" % (b.nkey, n_msg))
               if (n_msg >= 1 and not bad) else
               ("`%s` can return a received message without giving the slot back: %s" %
                (b.nkey, "; ".join("returns %s after [%s]" % (_ret_name(o), fmt_effects(o["effects"])) for o in bad[:3])) if bad
                else "`%s` calls Channel::recv but no outcome with a message was found (rule not established)" % b.nkey),
               loc=b.loc(), detail={"outcomes": [(_ret_name(o), fmt_effects(o["effects"]), {str(k): v for k, v in o["facts"].items()}) for o in outs]})
        # a receive permit is taken before the message is taken
        bad2 = [o for o in outs if any(k.startswith("msg@") and v for k, v in o["facts"].items() if isinstance(k, str))
                and not any(ev[0] == "acq" and ev[1] == RECV_SEM and ev[4] == "ok" for ev in o["effects"])]
        ctx.ob("C19.R1", "permit-before-message|" + b.nkey, not bad2,
               "`%s` only takes a message after acquiring one receive permit" % b.nkey, loc=b.loc())
    ctx.notes.append({"absint": it.stats})


def r2_send_path(ctx):
    prog = ctx.prog
    it = Interp(prog, Config(queries={IS_BOUNDED: "bounded"}))
    fns = [T + "mpsc::SenderInternal::send::{closure#0}", T + "mpsc::SenderInternal::try_send"]
    for f in fns:
        b = ctx.body(f, "C19.R2")
        outs = it.summary(f)
        ok_outs = [o for o in outs if _ret_name(o) == "Ok"]
        other = [o for o in outs if _ret_name(o) != "Ok"]
        ctx.floor("C19.R2", "successful outcomes of " + f, len(ok_outs), 1)
        for o in ok_outs:
            bounded = o["facts"].get("bounded")
            acq = [ev for ev in o["effects"] if ev[0] == "acq" and ev[1] == SEND_SEM and ev[4] == "ok" and ev[2] == ("c", 1)]
            rel = [ev for ev in o["effects"] if ev[0] == "rel" and ev[1] == RECV_SEM and ev[2] == ("c", 1)]
            need_acq = (bounded is not False)
            order_ok = True
            if acq and rel:
                order_ok = o["effects"].index(acq[0]) < o["effects"].index(rel[0])
            ok = len(rel) == 1 and (len(acq) == 1 if need_acq else True) and order_ok
            ctx.ob("C19.R2", "ok-outcome|%s|bounded=%s|%s" % (f, bounded, fmt_effects(o["effects"])), ok,
                   "`%s` returning Ok (bounded=%s): [%s] — must hold one send permit when bounded, then release one receive permit" %
                   (f, bounded, fmt_effects(o["effects"])), loc=b.loc())
        for o in other:
            rel = [ev for ev in o["effects"] if ev[0] == "rel" and ev[1] == RECV_SEM]
            ctx.ob("C19.R2", "err-outcome|%s|%s|%s" % (f, _ret_name(o), fmt_effects(o["effects"])), not rel,
                   "`%s` returning %s signals no receiver: [%s]" % (f, _ret_name(o), fmt_effects(o["effects"])), loc=b.loc())


def r3_fairness(ctx):
    prog = ctx.prog
    n = 0
    for b in prog.all_bodies({"shuttle_tokio_impl_inner"}):
        for s, t in b.calls():
            cs = b.callees_of_call(t, passed=False)
            if any(c.startswith("shuttle_engine::future::batch_semaphore::BatchSemaphore::") and "new" in c.rsplit("::", 1)[1] for c in cs):
                n += 1
                v = kinds.operand_enum_variant(b, t["args"][1])
                ctx.ob("C19.R3", "fair|%s|#%d" % (b.nkey, sum(1 for o in ctx.obs if o["key"].startswith("C19.R3|fair|" + b.nkey))), v == "StrictlyFair",
                       "`%s` builds a BatchSemaphore with Fairness::%s (tokio's primitives are FIFO: StrictlyFair required)" % (b.nkey, v), loc=b.loc(s))
    ctx.floor("C19.R3", "BatchSemaphore constructor calls in the tokio wrapper", n, 6)


GUARDS = {
    T + "mutex::MutexGuard": (None, T + "mutex::Mutex.semaphore"),
    T + "mutex::OwnedMutexGuard": (None, T + "mutex::Mutex.semaphore"),
    T + "rwlock::RwLockReadGuard": (None, None),
    T + "rwlock::OwnedRwLockReadGuard": (None, None),
    T + "rwlock::RwLockWriteGuard": ("permits_acquired", None),
    T + "rwlock::OwnedRwLockWriteGuard": ("permits_acquired", None),
    T + "semaphore::SemaphorePermit": ("permits", None),
    T + "semaphore::OwnedSemaphorePermit": ("permits", None),
}
# functions that turn one guard into another: expected effects (see r4)
CONVERSIONS = {
    T + "rwlock::RwLockWriteGuard::downgrade": "downgrade",
    T + "rwlock::OwnedRwLockWriteGuard::downgrade": "downgrade",
    T + "semaphore::SemaphorePermit::split": "none",
    T + "semaphore::OwnedSemaphorePermit::split": "none",
}
NO_EFFECT = [T + "semaphore::SemaphorePermit::forget", T + "semaphore::SemaphorePermit::merge",
             T + "semaphore::OwnedSemaphorePermit::forget", T + "semaphore::OwnedSemaphorePermit::merge"]


def _observe(body, site, st, it, state):
    if st.get("k") == "assign" and st["rv"]["k"] == "aggr" and st["rv"].get("ak") == "adt":
        a = norm(st["rv"]["adt"])
        if a in GUARDS:
            fld = GUARDS[a][0]
            if fld is None:
                amt = ("c", 1)
            else:
                i = st["rv"]["fields"].index(fld)
                amt = it.amount(body, state, st["rv"]["ops"][i])
            return "tag:guard|%s|%s" % (a, repr(amt))
    return None


def r4_guards(ctx):
    prog = ctx.prog
    it = Interp(prog, Config(observe=_observe))
    # Drop releases what the guard stands for
    for g, (fld, _) in sorted(GUARDS.items()):
        a = prog.adts.get(g)
        if a is None or not a.get("drop_impl"):
            ctx.ob("C19.R4", "anchor|" + g, False, "guard type `%s` or its Drop impl not found — rule not established" % g, nontrivial=False)
            continue
        dk = norm(a["drop_impl"])
        b = ctx.body(dk, "C19.R4")
        outs = it.summary(dk)
        good = bool(outs)
        for o in outs:
            rels = [ev for ev in o["effects"] if ev[0] == "rel"]
            acqs = [ev for ev in o["effects"] if ev[0] == "acq"]
            if len(rels) != 1 or acqs:
                good = False
                continue
            amt = rels[0][2]
            if fld is None:
                good &= (amt == ("c", 1))
            else:
                good &= (amt[0] == "sym" and amt[1].endswith("." + fld))
        ctx.ob("C19.R4", "drop|" + g, good, "Drop of `%s` releases %s on every path: %s" %
               (g.split("::")[-1], "1 permit" if fld is None else "self." + fld, sorted(set(fmt_effects(o["effects"]) for o in outs))), loc=b.loc())
    # constructors
    builders = {}
    for g in GUARDS:
        for b, s, st in prog.adt_constructions(g, crates={"shuttle_tokio_impl_inner"}):
            builders.setdefault(b.nkey, set()).add(g)
    ctx.floor("C19.R4", "functions building a guard/permit", len(builders), 20)
    for f in sorted(builders):
        b = prog.get(f)
        if b is None:
            continue
        try:
            outs = it.summary(f)
        except Overflow as e:
            ctx.ob("C19.R4", "outcomes|" + f, False, "abstract interpretation did not converge: %s" % e, loc=b.loc())
            continue
        conv = CONVERSIONS.get(f)
        for o in outs:
            tags = [t for t in o["tags"] if t.startswith("guard|")]
            closed = any(ev[0] == "acq" and ev[3] in ("async", "blocking") and ev[4] == "fail" for ev in o["effects"])
            net = net_effects(o["effects"])
            eff = fmt_effects(o["effects"])
            if conv == "none":
                ok = not o["effects"]
                desc = "`%s` (permit bookkeeping only) touches no semaphore: [%s]" % (f, eff)
            elif conv == "downgrade":
                rels = [ev for ev in o["effects"] if ev[0] == "rel"]
                ok = len(o["effects"]) == 1 and len(rels) == 1 and rels[0][2][0] == "expr" and rels[0][2][1] == "Sub" \
                    and rels[0][2][2][0] == "sym" and rels[0][2][2][1].endswith(".permits_acquired") and rels[0][2][3] == ("c", 1)
                desc = "`%s` releases exactly permits_acquired - 1 and nothing else (the write guard's own Drop must not run): [%s]" % (f, eff)
            elif tags:
                g, amt = tags[0].split("|")[1], tags[0].split("|")[2]
                held = [v for k, v in net.items()]
                flat = [x for v in held for x in v]
                ok = (len(flat) == 1 and flat[0][0] == "+" and repr(flat[0][1]) == amt and "?" not in amt) or (closed and not flat)
                desc = "`%s` builds %s recording %s while holding [%s]%s" % (f, g.split("::")[-1], amt, eff, " [closed branch]" if closed else "")
            else:
                flat = [x for v in net.values() for x in v]
                ok = not flat
                desc = ("`%s` returns %s without a guard and holds nothing" % (f, _ret_name(o))) if ok else \
                    ("`%s` returns %s WITHOUT a guard but still holds [%s]" % (f, _ret_name(o), eff))
            ctx.ob("C19.R4", "outcome|%s|%s|%s|%s" % (f, _ret_name(o), sorted(tags), eff), ok, desc, loc=b.loc())
    for f in NO_EFFECT:
        b = prog.get(f)
        if b is None:
            ctx.ob("C19.R4", "anchor|" + f, False, "function `%s` not found — rule not established" % f, nontrivial=False)
            continue
        # forget / merge consume a permit value: its `permits` field must be zeroed before its Drop runs
        drops = [(s, t) for s, t in b.drops() if any("SemaphorePermit" in i for i in t.get("impls", []))]
        good = bool(drops)
        for s, t in drops:
            base = t["pl"]["l"]
            zero = [zs for zs, st in b.assigns() if st["dst"]["l"] == base and kinds.last_field(st["dst"]) is not None
                    and kinds.last_field(st["dst"]).endswith(".permits") and st["rv"]["k"] == "use"
                    and st["rv"]["ops"][0].get("ev") == 0]
            if not any(b.site_dominates(z, s) for z in zero):
                good = False
        ctx.ob("C19.R4", "zero-before-drop|" + f, good,
               "`%s` zeroes `permits` of the permit it consumes before that permit is dropped (so the drop releases nothing)" % f, loc=b.loc())
    ctx.notes.append({"absint": it.stats})


def r5_close(ctx):
    prog = ctx.prog
    CLOSE = {"shuttle_engine::future::batch_semaphore::BatchSemaphore::close",
             "shuttle_engine::future::batch_semaphore::BatchSemaphore::close_no_scheduling_point"}
    it = Interp(prog, Config())
    ds = ctx.body(CH + "::drop_sender", "C19.R5")
    outs = it.summary(ds.nkey)
    closes = [tuple(ev for ev in o["effects"] if ev[0] == "close") for o in outs]
    kinds_ = set(closes)
    want = {(), (("close", SEND_SEM),), (("close", SEND_SEM), ("close", RECV_SEM))}
    ctx.ob("C19.R5", "drop_sender", kinds_ == want,
           "Channel::drop_sender closes nothing (senders remain), the send side (messages remain) or send then receive side (empty): %s" %
           sorted(fmt_effects(c) for c in kinds_), loc=ds.loc())
    # the no-close outcome is controlled by the sender count
    sl = Slicer(ds)
    cd = control_deps(ds)
    close_sites = [s for s, t in ds.calls() if prog.site_calls(ds, s, {CH + "::close"} | CLOSE)]
    okc = False
    for s in close_sites:
        for sw in cd.get(s.bb, ()):
            labels, _ = sl.slice_operand(ds.term(sw)["discr"])
            if any(l == "field:" + T + "mpsc::ChannelState.known_senders" for l in labels):
                okc = True
    ctx.ob("C19.R5", "drop_sender-guard", okc, "the closing branch of drop_sender is controlled by ChannelState.known_senders", loc=ds.loc())
    rc = ctx.body(CH_RECV, "C19.R5")
    sl = Slicer(rc)
    cd = control_deps(rc)
    cs = [s for s, t in rc.calls() if prog.site_calls(rc, s, CLOSE)]
    ok = False
    for s in cs:
        labs = set()
        for sw in cd.get(s.bb, ()):
            l, _ = sl.slice_operand(rc.term(sw)["discr"])
            labs |= l
        if ("field:" + T + "mpsc::ChannelState.known_senders") in labs and any("is_empty" in l for l in labs):
            ok = True
    ctx.ob("C19.R5", "recv-closes-when-drained", bool(cs) and ok,
           "Channel::recv closes the receive semaphore under a condition on `messages.is_empty()` and `known_senders`", loc=rc.loc())
    dr = ctx.body(CH + "::drop_receiver", "C19.R5")
    w = kinds.must_follow(prog, dr, Site(0, -1), {CH + "::close"} | CLOSE)
    ctx.ob("C19.R5", "drop_receiver-closes", w is None, "Channel::drop_receiver closes the send side on every path", loc=dr.loc())
    # tokio: dropping the Receiver also drops every value still buffered (whether or not close() was called before); a buffered request
    # that carries a oneshot::Sender would otherwise keep its client waiting for as long as any Sender clone lives
    import re
    from rules.c18 import _calls_on_field
    takes = [s for s, t in dr.calls() if any(c in ("core::mem::take", "core::mem::replace") or c.endswith(("::clear", "::drain")) for c in dr.callees_of_call(t, passed=False))
             and ("field:" + T + "mpsc::ChannelState.messages") in Slicer(dr, alias_defs=True).slice_operand(t["args"][0])[0]]
    ts = set(takes)
    w2 = dr.path_exists(None, dr.is_return, lambda x: x in ts)
    ctx.ob("C19.R5", "drop_receiver-discards-buffered", bool(takes) and w2 is None,
           "Channel::drop_receiver takes the buffered messages out of the channel (and drops them) on every path", loc=dr.loc())


def r6_delegation(ctx):
    prog = ctx.prog
    pairs = [("shuttle_tokio_impl_inner::task::spawn", {"shuttle_std::future::spawn"}),
             ("shuttle_tokio_impl_inner::task::JoinHandle::abort", {"shuttle_std::future::JoinHandle::abort", "shuttle_std::future::AbortHandle::abort"}),
             ("<shuttle_tokio_impl_inner::task::JoinHandle as core::future::future::Future>::poll", {"<shuttle_std::future::JoinHandle as core::future::future::Future>::poll"})]
    for f, targets in pairs:
        b = ctx.body(f, "C19.R6")
        reach = prog.may_reach([f])
        ctx.ob("C19.R6", "delegates|" + f, bool(reach & targets), "`%s` forwards to %s" % (f, sorted(targets)), loc=b.loc())


def r7_notify(ctx):
    """Notify (narrow, required effects): at most one stored permit (a bool), notify_one either stores the permit or hands it to
    exactly one removed waiter (no loop), notify_waiters takes the whole waiter list and signals every element, a waiter consumes
    the stored permit with mem::replace, a dropped un-notified waiter leaves the queue."""
    from engine.slicing import FlowSlicer
    from engine.facts import last_field
    prog = ctx.prog
    N = T + "notify::"
    a = prog.adts.get(N + "NotifyState")
    pty = [f["ty"] for v in a["variants"] for f in v["fields"] if f["name"] == "pending"] if a else []
    ctx.ob("C19.R7", "permit-is-a-bool", pty == ["bool"], "Notify stores its pending permit in a bool (at most one permit): %s" % pty)
    n1 = ctx.body(N + "Notify::notify_one", "C19.R7")
    fs = FlowSlicer(n1)
    PEND = N + "NotifyState.pending"
    setp = [s for s, st in n1.assigns() if last_field(st["dst"]) == PEND and st["rv"]["k"] == "use" and st["rv"]["ops"][0].get("ev") == 1]
    sends = [s for s, t in n1.calls() if any(c.endswith("oneshot::Sender::send") for c in n1.callees_of_call(t, passed=False))]
    rem = [s for s, t in n1.calls() if N + "NotifyState::remove_waiter" in n1.callees_of_call(t, passed=False)]
    ok = bool(setp) and any(l.endswith("Vec::is_empty") for l in fs.guard_labels(setp[0]))
    ctx.ob("C19.R7", "notify_one-stores-permit-when-nobody-waits", ok, "notify_one sets `pending` when no enabled waiter exists (the notification is not lost)", loc=n1.loc())
    ok = len(sends) == 1 and len(rem) == 1 and n1.path_exists(sends[0], lambda x: x == sends[0]) is None and n1.site_dominates(rem[0], sends[0])
    ctx.ob("C19.R7", "notify_one-wakes-exactly-one", ok, "notify_one removes one waiter from the queue and signals it once (not in a loop)", loc=n1.loc())
    ctx.ob("C19.R7", "notify_one-either-or", bool(setp) and bool(sends) and n1.path_exists(setp[0], lambda x: x == sends[0]) is None and n1.path_exists(sends[0], lambda x: x == setp[0]) is None,
           "storing the permit and waking a waiter are mutually exclusive paths", loc=n1.loc())
    nw = ctx.body(N + "Notify::notify_waiters", "C19.R7")
    tk = [s for s, t in nw.calls() if "core::mem::take" in nw.callees_of_call(t, passed=False)]
    sends = [s for s, t in nw.calls() if any(c.endswith("oneshot::Sender::send") for c in nw.callees_of_call(t, passed=False))]
    ok = bool(tk) and bool(sends) and all(nw.path_exists(s, lambda x, s=s: x == s) is not None for s in sends)
    ctx.ob("C19.R7", "notify_waiters-signals-all", ok, "notify_waiters takes the whole waiter list and signals every element (loop)", loc=nw.loc())
    # the waiters were taken out of the queue: until its flag says NOTIFIED a waiter's Drop / poll still believes it is queued and calls
    # remove_waiter (which panics when the id is gone).  Waking a waiter is a scheduling point, so every flag must be set before the first wake.
    import re
    from rules.c18 import _calls_on_field
    stores = [s for s, t in _calls_on_field(prog, nw, N + "Waiter.flag", re.compile(r"atomic::Atomic.*::(store|swap)$"))]
    may_switch = kinds.may_reach_set(prog, {kinds.SWITCH})
    yields = [s for s, t in nw.calls() if nw.callees_of_call(t) & may_switch]
    bad = next((y for y in yields if nw.path_exists(y, lambda x: x in set(stores)) is not None), None)
    ctx.ob("C19.R7", "notify_waiters-marks-all-before-first-wake", bool(stores) and bool(yields) and bad is None,
           "in notify_waiters no flag is set after a call that may reach a choice point: all removed waiters are marked NOTIFIED before any of them is woken" if bad is None else
           "notify_waiters sets a waiter's flag after a call that may yield (%s): a removed waiter whose flag is not yet NOTIFIED can run in that window, "
           "and dropping or polling its Notified panics in remove_waiter" % nw.loc(bad), loc=nw.loc(bad) if bad else nw.loc())
    pi = ctx.body(N + "Notified::poll_inner", "C19.R7")
    rp = [s for s, t in pi.calls() if "core::mem::replace" in pi.callees_of_call(t, passed=False)]
    ok = bool(rp) and kinds.operand_const(pi, pi.term(rp[0].bb)["args"][1]) == 0
    ctx.ob("C19.R7", "waiter-consumes-permit", ok, "a waiter consumes the stored permit with mem::replace(&mut pending, false)", loc=pi.loc())
    dk = [b for b in prog.all_bodies({"shuttle_tokio_impl_inner"}) if "notify::Notified as pin_project::__private::PinnedDrop>::drop" in b.nkey and
          any(N + "NotifyState::remove_waiter" in b.callees_of_call(t, passed=False) for s, t in b.calls())]
    ctx.ob("C19.R7", "dropped-waiter-leaves-queue", bool(dk), "dropping an un-notified Notified removes its waiter from the queue", loc=dk[0].loc() if dk else None)


def r8_fresh_waker(ctx):
    from rules.c17 import fresh_waker_rule
    fresh_waker_rule(ctx, "C19.R8", {"shuttle_tokio_impl_inner"}, 1)


def r9_no_guard_across_choice_point(ctx):
    """The tokio replacements keep part of their bookkeeping (Notify's waiter list, watch's value, the timeout table) under real std locks;
    a choice point while such a guard is held lets another task block the single OS thread on the same lock."""
    from engine import borrows
    borrows.rule_no_guard_across_choice_point(ctx, "C19.R9", {"shuttle_tokio_impl_inner"}, {}, 10)


RULES = [("C19.R9", r9_no_guard_across_choice_point), ("C19.R8", r8_fresh_waker), ("C19.R7", r7_notify), ("C19.R1", r1_receive_paths), ("C19.R2", r2_send_path), ("C19.R3", r3_fairness), ("C19.R4", r4_guards),
         ("C19.R5", r5_close), ("C19.R6", r6_delegation)]
