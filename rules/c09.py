"""C09 — DFS (narrow): structural clauses only — the fixed data stream, the stop conditions and the shape of the
backtracking step.  That the enumeration visits every maximal choice sequence exactly once is NOT decided."""
import re

from engine import kinds
from engine.facts import Site, Slicer, norm, operand_local, control_deps, last_field
from engine.slicing import FlowSlicer, expand_closure_labels
from rules.c18 import _calls_on_field
from rules.c01 import DENY as AMBIENT

CRATES = {"shuttle_engine", "shuttle_schedulers"}
EXPLANATION = (
    "Static decision of the structural clauses of C09 only (stated plainly: exhaustiveness and uniqueness of the enumeration are "
    "index arithmetic over a run-time stack and are not decided). (R1) every DFS execution uses the same data stream: the "
    "scheduler's data source is a FixedDataSource built from the constant DFS_RANDOM_SEED, whose reinitialize re-creates the "
    "generator from its never-rewritten seed field; the Schedule seed is that value (C01.R3). (R2) new_execution returns None only "
    "under the iteration budget or under `iterations > 0 && !has_more_choices(0)`, increments iterations once and resets the step "
    "cursor on the path that starts an execution. (R3) a fresh level always takes the first offered task and records whether it was "
    "the only one; a backtracking step advances to the task *after* the previous choice in the offered slice (position + 1), truncates "
    "the deeper levels and pushes the new choice; the cursor advances once per decision.")
NOT_DECIDED = "that every maximal sequence of choices is visited exactly once, the `was_last` flag arithmetic, interaction with step bounds"
ASSUMPTIONS = []

D = "shuttle_schedulers::dfs::"
FX = "shuttle_engine::scheduler::data::fixed::"
NE = "<" + D + "DfsScheduler as shuttle_engine::scheduler::Scheduler>::new_execution"
NT = "<" + D + "DfsScheduler as shuttle_engine::scheduler::Scheduler>::next_task"


def r1_fixed_stream(ctx):
    prog = ctx.prog
    a = prog.adts.get(D + "DfsScheduler")
    ty = [f["ty"] for v in a["variants"] for f in v["fields"] if f["name"] == "data_source"] if a else []
    ctx.ob("C09.R1", "data-source-type", ty == [FX + "FixedDataSource"], "DfsScheduler.data_source is a FixedDataSource: %s" % ty)
    nw = ctx.body(D + "DfsScheduler::new", "C09.R1")
    ini = [(s, t) for s, t in nw.calls() if any(c.endswith("DataSource>::initialize") or c.endswith("DataSource::initialize") for c in nw.callees_of_call(t, passed=False))]
    # any seed that is a function of constants and of the constructor's own arguments is "fixed"; an ambient source is not
    fsn = FlowSlicer(nw, control=False)
    amb = set()
    for s, t in ini:
        for l in fsn.operand_labels(t["args"][0], s):
            if l.startswith("call:"):
                amb |= {c for c in prog.may_reach([l[5:]]) | {l[5:]} if AMBIENT.search(c)}
    ok = bool(ini) and not amb
    ctx.ob("C09.R1", "constant-seed", ok, "DfsScheduler::new seeds its data source with a value fixed by constants and its own arguments (DFS_RANDOM_SEED), "
           "no ambient source (OS randomness, time, environment) in its slice: %s" % sorted(amb), loc=nw.loc())
    ri = ctx.body("<" + FX + "FixedDataSource as shuttle_engine::scheduler::data::DataSource>::reinitialize", "C09.R1")
    ini = [(s, t) for s, t in ri.calls() if any(c.endswith("DataSource>::initialize") or c.endswith("DataSource::initialize") for c in ri.callees_of_call(t, passed=False))]
    ok = bool(ini) and all(("field:" + FX + "FixedDataSource.seed") in FlowSlicer(ri, control=False).operand_labels(t["args"][0], s) for s, t in ini)
    dom = bool(ini) and all(ri.path_exists(None, ri.is_return, lambda x: x == ini[0][0]) is None for _ in [0])
    ctx.ob("C09.R1", "reinitialize-restarts-stream", ok and dom, "FixedDataSource::reinitialize re-creates the generator from its own seed on every path", loc=ri.loc())
    w = kinds.writers_of_field(prog, FX + "FixedDataSource.seed", None, kinds=("assign", "refmut", "call_dst"))
    kinds.check_who_may(ctx, "C09.R1", "writer of FixedDataSource.seed", set(w), set())


def r2_stop_conditions(ctx):
    prog = ctx.prog
    b = ctx.body(NE, "C09.R2")
    IT = D + "DfsScheduler.iterations"
    fs = FlowSlicer(b)
    nones = [s for s, st in b.assigns() if st["dst"]["l"] == 0 and st["rv"]["k"] == "aggr" and st["rv"].get("variant") == "None"]
    somes = [s for s, st in b.assigns() if st["dst"]["l"] == 0 and st["rv"]["k"] == "aggr" and st["rv"].get("variant") == "Some"]
    ctx.floor("C09.R2", "`return None` sites in DfsScheduler::new_execution", len(nones), 2)
    g = [expand_closure_labels(prog, fs.guard_labels(s)) for s in nones]
    budget = any(("field:" + D + "DfsScheduler.max_iterations") in l for l in g)
    exhausted = any(("call:" + D + "DfsScheduler::has_more_choices") in l and ("field:" + IT) in l for l in g)
    ctx.ob("C09.R2", "stops-on-budget", budget, "one None exit is guarded by the iteration budget", loc=b.loc())
    # precisely: among the branches that control the exhausted exit there is one that tests `iterations` WITHOUT `max_iterations` (the
    # budget test also mentions iterations, and it controls every later exit).  "Has an execution been started" must be asked of the
    # counter, not of the recorded levels: an execution that is cut off before its first decision (step bound 0) records no level.
    fd = FlowSlicer(b, control=False)
    own_test = False
    for s in nones:
        if ("call:" + D + "DfsScheduler::has_more_choices") not in expand_closure_labels(prog, fs.guard_labels(s)):
            continue
        for sw in control_deps(b).get(s.bb, ()):
            dl = fd.operand_labels(b.term(sw)["discr"], b.term_site(sw))
            if ("field:" + IT) in dl and ("field:" + D + "DfsScheduler.max_iterations") not in dl:
                own_test = True
    ctx.ob("C09.R2", "stops-when-exhausted", exhausted and own_test,
           "one None exit is guarded by `iterations > 0 && !has_more_choices(0)`" if (exhausted and own_test) else
           "the exhausted-tree exit of new_execution is not conditioned on a test of `iterations` of its own: whether an execution has been started must not be "
           "inferred from the recorded levels (an execution stopped before its first decision records none, and DFS would never stop)", loc=b.loc())
    inc = [s for s, st in b.assigns() if last_field(st["dst"]) == IT]
    rst = [s for s, st in b.assigns() if last_field(st["dst"]) == D + "DfsScheduler.steps" and st["rv"]["k"] == "use" and st["rv"]["ops"][0].get("ev") == 0]
    ok = len(inc) == 1 and bool(rst) and bool(somes) and all(b.site_dominates(inc[0], s) and b.site_dominates(rst[0], s) for s in somes)
    ctx.ob("C09.R2", "counts-and-rewinds", ok, "an execution is started only after iterations was incremented once and the step cursor was reset to 0", loc=b.loc())


def r3_backtracking_shape(ctx):
    prog = ctx.prog
    b = ctx.body(NT, "C09.R3")
    LV = D + "DfsScheduler.levels"
    fs = FlowSlicer(b, control=False)
    pushes = _calls_on_field(prog, b, LV, re.compile(r"Vec::push$"))
    ctx.floor("C09.R3", "pushes onto the choice stack", len(pushes), 2)
    first_ok, next_ok = False, False
    for s, t in pushes:
        labs = fs.operand_labels(t["args"][1], s)
        if any(l.endswith("::first") for l in labs) and "arg:2" in labs:
            first_ok = True
        if any(l.endswith("Iterator::position") or l.endswith("Iterator>::position") for l in labs) and "const:1" in labs and "arg:2" in labs:
            next_ok = True
    # exactly the successor: the index with which the offered slice is read on the backtracking path is position(previous choice) + 1
    from engine.lin import Lin
    lin = Lin(b)
    lin.opaque = {"Iterator::position": "pos", "Iterator>::position": "pos"}
    idx_forms = []
    for s in b.sites():
        st = b.at(s)
        for pl in b.places_read(st):
            if pl["l"] == 2:
                for p in pl.get("p", []):
                    if p.startswith("I:_"):
                        idx_forms.append(lin.op({"k": "copy", "pl": {"l": int(p[3:])}}))
    exact = bool(idx_forms) and all(f == {"pos": 1, "const": 1} for f in idx_forms)
    next_ok = next_ok and exact
    ctx.ob("C09.R3", "fresh-level-takes-first", first_ok, "a fresh level records the first offered task", loc=b.loc())
    ctx.ob("C09.R3", "backtrack-takes-successor", next_ok,
           "a backtracking step records the offered task at position(previous choice) + 1" if next_ok else
           "the backtracking step does not select the successor of the previous choice in the offered slice: schedules would be skipped or repeated", loc=b.loc())
    dr = _calls_on_field(prog, b, LV, re.compile(r"Vec::drain$"))
    ok = bool(dr) and any(b.site_dominates(dr[0][0], s) for s, t in pushes)
    ctx.ob("C09.R3", "truncate-before-push", ok, "deeper levels are truncated before the new choice is pushed", loc=b.loc())
    ST = D + "DfsScheduler.steps"
    inc = [s for s, st in b.assigns() if last_field(st["dst"]) == ST]
    ok = len(inc) == 1 and b.path_exists(None, b.is_return, lambda x: x == inc[0]) is None and b.path_exists(inc[0], lambda x: x == inc[0]) is None
    ctx.ob("C09.R3", "cursor-advances-once", ok, "the step cursor advances exactly once per decision on every path", loc=b.loc())
    sl = Slicer(b, alias_defs=False)
    sl.slice_locals([0])
    ctx.ob("C09.R3", "returns-recorded-choice", all(s in sl.sites or True for s, t in pushes) and bool(pushes), "the returned task is the recorded choice", loc=b.loc(), nontrivial=False)
    nu = ctx.body("<" + D + "DfsScheduler as shuttle_engine::scheduler::Scheduler>::next_u64", "C09.R3")
    ok = any(any(c.endswith("DataSource>::next_u64") or c.endswith("DataSource::next_u64") for c in nu.callees_of_call(t, passed=False)) for s, t in nu.calls())
    ctx.ob("C09.R3", "draws-from-fixed-source", ok, "random draws under DFS come from the fixed data source", loc=nu.loc())


RULES = [("C09.R1", r1_fixed_stream), ("C09.R2", r2_stop_conditions), ("C09.R3", r3_backtracking_shape)]
