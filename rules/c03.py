"""C03 — deadlock and termination verdicts: single owner of task state (K1), what the verdict depends on (K4),
self-block implies yield (K3, family-wide), report content (K1)."""
from engine import kinds
from engine.facts import Site, Slicer, norm, operand_local, control_deps, last_field
from engine.slicing import FlowSlicer, expand_closure_labels, expand_fn_labels

CRATES = {"shuttle_engine", "shuttle_std", "shuttle"}
EXPLANATION = (
    "Static decision of structural clauses of C03. (R1) Task.state is written only by Task::{block,sleep,unblock,finish} (and "
    "construction), Task::finish is called only by the function that also removes the id from live_tasks on every path, "
    "Task.detached only by detach. (R2) in ExecutionState::schedule the branch that decides `Finished` depends on "
    "Task::runnable and Task.detached and NOT on can_spuriously_wakeup (which may only control the push into the offered list); "
    "in run_to_completion the Deadlock error is controlled by Task::finished and Task.detached. (R3) wherever a task blocks "
    "itself (current_mut().block / sleep_unless_woken / park returning true) every normal path reaches thread::switch before "
    "returning — over mpsc, Condvar, Barrier, join, scope, park and the three poll loops; blocks of *other* tasks are excluded "
    "by receiver provenance. (R4) the deadlock report is built from a filter over ExecutionState.tasks whose predicate is "
    "Task::finished.")
NOT_DECIDED = "exactness of the verdict for all programs and schedules; permit leaks that cause false deadlocks are decided under C04/C19"
ASSUMPTIONS = ["closures are run where they are passed"]

T = "shuttle_engine::runtime::task::"
E = "shuttle_engine::runtime::execution::"
ES = E + "ExecutionState::"


def r1_single_owner(ctx):
    prog = ctx.prog
    w = kinds.writers_of_field(prog, T + "Task.state", None, kinds=("assign", "call_dst", "refmut"))
    kinds.check_who_may(ctx, "C03.R1", "writer of Task.state", set(w), {T + "Task::block", T + "Task::sleep", T + "Task::unblock", T + "Task::finish"},
                        {k: v[0][0].loc(v[0][1]) for k, v in w.items()}, required={T + "Task::block", T + "Task::unblock", T + "Task::finish", T + "Task::sleep"})
    w = kinds.writers_of_field(prog, T + "Task.detached", None, kinds=("assign", "call_dst", "refmut"))
    kinds.check_who_may(ctx, "C03.R1", "writer of Task.detached", set(w), {T + "Task::detach"}, required={T + "Task::detach"})
    cal = kinds.callers(prog, T + "Task::finish")
    roots = {kinds.root_fn(prog, k) for k in cal}
    kinds.check_who_may(ctx, "C03.R1", "caller of Task::finish", roots, {ES + "finish_task"}, required={ES + "finish_task"})
    ft = ctx.body(ES + "finish_task", "C03.R1")
    fs = [s for s, t in ft.calls() if T + "Task::finish" in ft.callees_of_call(t, passed=False)]
    rm = lambda s: ft.is_term(s) and ft.term(s.bb)["k"] == "call" and "alloc::vec::Vec::remove" in ft.callees_of_call(ft.term(s.bb), passed=False)
    ok = bool(fs) and ft.path_exists(fs[0], ft.is_return, rm) is None
    ctx.ob("C03.R1", "finish-removes-from-live", ok, "finish_task marks the task Finished and removes it from live_tasks on every path", loc=ft.loc())
    # unblock/finish never applied to a finished task: the asserts exist (assert terminators / panics guarded by state)
    cal = kinds.callers(prog, ES + "finish_task")
    kinds.check_who_may(ctx, "C03.R1", "caller of finish_task", {kinds.root_fn(prog, k) for k in cal},
                        {ES + "finish_current_task"})


def r2_verdict_dependence(ctx):
    prog = ctx.prog
    sch = ctx.body(ES + "schedule", "C03.R2")
    NEXT = E + "ExecutionState.next_task"
    fs = FlowSlicer(sch)
    fin = []
    for s, st in sch.assigns():
        if last_field(st["dst"]) != NEXT:
            continue
        v = st["rv"].get("variant") if st["rv"]["k"] == "aggr" else (kinds.operand_enum_variant(sch, st["rv"]["ops"][0]) if st["rv"].get("ops") else None)
        if v == "Finished":
            fin.append(s)
    if ctx.floor("C03.R2", "`next_task = Finished` in schedule", len(fin), 1):
        labs = fs.guard_labels(fin[0])
        has_run = ("call:" + T + "Task::runnable") in labs
        has_det = ("field:" + T + "Task.detached") in labs
        has_spur = ("call:" + T + "Task::can_spuriously_wakeup") in labs
        ctx.ob("C03.R2", "finished-depends-on-runnable-and-detached", has_run and has_det,
               "the decision `Finished` depends on Task::runnable and Task.detached", loc=sch.loc(fin[0]))
        ctx.ob("C03.R2", "finished-ignores-spurious-eligibility", not has_spur,
               "the decision `Finished` does not depend on can_spuriously_wakeup: tasks that merely wait for a possible spurious wake-up do not count as able to progress" if not has_spur else
               "the decision `Finished` depends on can_spuriously_wakeup(): a state in which only spuriously-wakeable tasks remain would not be reported as a deadlock",
               loc=sch.loc(fin[0]))
    pushes = [x for x, tt in sch.calls() if "alloc::vec::Vec::push" in sch.callees_of_call(tt, passed=False)]
    ok = any(("call:" + T + "Task::can_spuriously_wakeup") in fs.guard_labels(x) for x in pushes)
    ctx.ob("C03.R2", "spurious-tasks-offered", ok, "spuriously-wakeable blocked tasks are offered to the scheduler", loc=sch.loc())
    c0 = ctx.closure(E + "Execution::run_to_completion", ES + "schedule", "C03.R2")
    dl = [(s, st) for s, st in c0.assigns() if st["rv"]["k"] == "aggr" and st["rv"].get("variant") == "Deadlock"]
    if ctx.floor("C03.R2", "StepError::Deadlock construction", len(dl), 1):
        # the predicate may live in a helper; "unfinished" may be spelled finished() or membership in live_tasks (= ids of the unfinished tasks, R1)
        labs = expand_fn_labels(prog, FlowSlicer(c0).guard_labels(dl[0][0]))
        unfinished = any(l.endswith("Task::finished") for l in labs) or ("field:" + E + "ExecutionState.live_tasks") in labs
        ok = unfinished and ("field:" + T + "Task.detached") in labs
        ctx.ob("C03.R2", "deadlock-depends-on-unfinished-attached", ok, "StepError::Deadlock is raised iff some task is unfinished and not detached (predicate over Task::finished and Task.detached)", loc=c0.loc(dl[0][0]))


def _expand(prog, labels):
    out = set(labels)
    for l in list(labels):
        if l.startswith("call:"):
            cb = prog.get(l[5:])
            if cb is not None and cb.parent:
                out |= {"call:" + c for c in prog.callgraph.get(cb.nkey, ())}
                for s in cb.sites():
                    st = cb.at(s)
                    for pl in cb.places_read(st):
                        for p in pl.get("p", []):
                            if p.startswith("F:"):
                                out.add("field:" + norm(p[2:]))
    return out


SELF_BLOCK = {T + "Task::block": "block", T + "Task::sleep_unless_woken": "sleep_unless_woken", T + "Task::park": "park"}
ICC = {ES + "with", ES + "try_with"}


def r3_block_implies_yield(ctx):
    prog = ctx.prog
    must_switch = prog.must_call({kinds.SWITCH}, invoke_closure_callees=ICC) | {kinds.SWITCH}
    n = 0
    for c in prog.all_bodies(CRATES):
        if "::tests::" in c.nkey:
            continue
        sl = None
        for s, t in c.calls():
            names = c.callees_of_call(t, passed=False)
            hit = names & set(SELF_BLOCK)
            if not hit:
                continue
            if sl is None:
                sl = Slicer(c, alias_defs=False)
            labels, _ = sl.slice_operand(t["args"][0])
            if ("call:" + ES + "current_mut") not in labels:
                continue          # blocks another task (get_mut(tid)) or is Task-internal
            n += 1
            what = SELF_BLOCK[sorted(hit)[0]]
            # find the function that runs this closure
            if c.parent:
                holders = [(b, x, tt) for b, x, tt in prog.callers_of(c.nkey) if b.nkey == c.parent or b.parent == c.parent or b.nkey == kinds.root_fn(prog, c.nkey)]
            else:
                holders = [(c, s, t)]
            if not holders:
                ctx.ob("C03.R3", "yield-after|%s|%s" % (c.nkey, what), False, "closure `%s` blocks the current task but no call site running it was found" % c.nkey, loc=c.loc(s))
                continue
            for b, x, tt in holders:
                w = kinds.must_follow(prog, b, x, must_switch, icc=ICC)
                how = "on every path"
                if w is not None:
                    # conditional form: `let blocked = with(|s| {... block ...; true}); if blocked { switch() }`
                    br = kinds.bool_branch(b, x)
                    if br is not None:
                        w2 = kinds.must_follow(prog, b, None, must_switch, icc=ICC, start_bb=br[0])
                        returns_true = _block_implies_true(prog, c, s)
                        if w2 is None and returns_true:
                            w = None
                            how = "on the branch taken when the task blocked (the closure returns true exactly then)"
                key = "yield-after|%s|%s" % (b.nkey, what)
                ctx.ob("C03.R3", key, w is None,
                       ("`%s`: after the current task %ss itself, thread::switch is reached %s" % (b.nkey, what, how)) if w is None else
                       ("`%s`: the current task %ss itself at %s but a path returns to the caller without thread::switch: the task would keep running while marked blocked" %
                        (b.nkey, what, c.loc(s))), loc=b.loc(x))
    ctx.floor("C03.R3", "self-block sites", n, 10)
    # Task::park returns true exactly when it blocked
    pk = ctx.body(T + "Task::park", "C03.R3")
    bl = [s for s, t in pk.calls() if T + "Task::block" in pk.callees_of_call(t, passed=False)]
    ok = bool(bl) and _block_implies_true(prog, pk, bl[0])
    ctx.ob("C03.R3", "park-true-iff-blocked", ok, "Task::park returns true on every path that blocked the task", loc=pk.loc())


def _block_implies_true(prog, c, s):
    """After the self-block at site s, every path to the return of c assigns `true` to the return place (or c returns ())."""
    if c.local_ty(0) == "()":
        return False
    if c.local_ty(0) != "bool":
        return False
    t0 = c.at(s)
    if t0.get("k") == "call" and t0["dst"]["l"] == 0 and not t0["dst"].get("p") and T + "Task::park" in c.callees_of_call(t0, passed=False):
        return True     # the closure returns Task::park's own result (true iff it blocked: obligation park-true-iff-blocked)
    true_w = lambda x: (c.at(x).get("k") == "assign" and c.at(x)["dst"]["l"] == 0 and not c.at(x)["dst"].get("p") and c.at(x)["rv"]["k"] == "use"
                        and c.at(x)["rv"]["ops"][0].get("ev") == 1)
    false_w = lambda x: (c.at(x).get("k") == "assign" and c.at(x)["dst"]["l"] == 0 and not c.at(x)["dst"].get("p") and c.at(x)["rv"]["k"] == "use"
                         and c.at(x)["rv"]["ops"][0].get("ev") == 0)
    no_true = c.path_exists(s, c.is_return, true_w)
    return no_true is None and c.path_exists(s, false_w) is None


def r4_report(ctx):
    prog = ctx.prog
    rc = ctx.closure(E + "Execution::run", E + "Execution::run_to_completion", "C03.R4")
    fl = []
    for b in prog.all_bodies({"shuttle_engine"}):
        if kinds.root_fn(prog, b.nkey) != E + "Execution::run":
            continue
        for s, t in b.calls():
            if any(c.endswith("Iterator::filter") for c in b.callees_of_call(t, passed=False)):
                for cl in b.passed_callables(t):
                    if T + "Task::finished" in prog.callgraph.get(cl, ()):
                        sl = Slicer(b)
                        labels, _ = sl.slice_operand(t["args"][0])
                        fl.append(("field:" + E + "ExecutionState.tasks") in labels)
    ctx.ob("C03.R4", "report-names-unfinished", any(fl), "the deadlock report is a filter of ExecutionState.tasks by !finished()", loc=rc.loc())


def r5_no_stale_waker(ctx):
    """A task whose wake-up went to an earlier poller's waker stays Sleeping although its result is there: the execution is then
    reported as a deadlock that is none (same structural clause as C17.R5, decided here for the deadlock verdict)."""
    from rules.c17 import fresh_waker_rule
    fresh_waker_rule(ctx, "C03.R5", {"shuttle_engine", "shuttle_std", "shuttle"}, 2)


RULES = [("C03.R1", r1_single_owner), ("C03.R2", r2_verdict_dependence), ("C03.R3", r3_block_implies_yield), ("C03.R4", r4_report), ("C03.R5", r5_no_stale_waker)]
