"""C14 — executions are isolated: inventory of process/thread state (K5+K1), fresh state by construction (K5),
cleanup reached and complete (K3+K1), stack recycling (K2+K4)."""
import re

from engine import kinds
from engine.facts import Site, Slicer, norm, operand_local, control_deps, last_field

CRATES = {"shuttle_engine", "shuttle_std", "shuttle", "shuttle_schedulers", "shuttle_tokio_impl_inner"}
# the `annotation` feature does not type-check at the pinned commit (E0308 in shuttle-engine/src/annotations/mod.rs, untouched by any fix), so that
# configuration cannot be extracted; `plain` (no vector clocks) is the second configuration instead
CONFIGS_THOROUGH = ["vc", "plain"]
EXPLANATION = (
    "Static decision of structural clauses of C14. (R1) every static / thread_local / scoped_thread_local item with interior "
    "mutability in the engine, std, shuttle, schedulers and tokio-time crates is enumerated from the type-checked program "
    "(tracing call-sites excluded by expansion tag) and each must be (a) overwritten on every path from Execution::run's "
    "entry to the spawn of the main task (clearing in ExecutionState::cleanup alone does not count: a failing execution "
    "unwinds past it), (b) a scoped key bound for the duration of a run, or (c) a table entry with a reason; a new static "
    "without a reset is reported by name. (R2) ExecutionState::new takes only (Config, scheduler), reads no ambient state "
    "and is called only by Execution::run. (R3) cleanup takes the task list, pops storage until empty and clears the "
    "per-thread maps; Once and lazy_static keep their state only in ExecutionState storage. (R4) a continuation is put "
    "back into the pool only when reusable, or after its un-run function has been taken out.")
NOT_DECIDED = "behavioural equality of an execution with its stand-alone replay; state kept by user code or third-party crates"
ASSUMPTIONS = ["user code's own statics are out of scope"]

E = "shuttle_engine::runtime::execution::"
RUN = E + "Execution::run"
CLEANUP = E + "ExecutionState::cleanup"

# (c) allow-listed state, one reason per line
TABLE = {
    "shuttle_std::sync::atomic::PRINTED_ORDERING_WARNING": "one-time warning flag; never read by modelled operations",
    "shuttle::lazy_static::PRINTED_DROP_WARNING": "one-time warning flag; never read by modelled operations",
    "shuttle_std::sync::once::Once::new::NEXT_ID": "identity counter only: ids are never compared across executions and do not influence scheduling",
    "shuttle_engine::runtime::failure::init_panic_hook::INIT": "guards one-time installation of the process-wide panic hook; the hook itself reads per-run state (C12.R2)",
    "shuttle_tokio_impl_inner::time::HAS_WARNED": "one-time warning flag",
    "shuttle_tokio_impl_inner::time::TIMEOUT_TABLE": "entries are removed by Timeout's Drop (also when unfinished tasks are dropped at cleanup); the slot "
                                                     "counter is identity only; triggers are test-harness configuration with an explicit clear_triggers()",
    "shuttle_engine::annotations::ANNOTATION_STATE": "annotation recorder (feature `annotation`): bound for the duration of a run like a scoped key (start/stop around the run)",
}
SCOPED = {E + "EXECUTION_STATE", "shuttle_engine::runtime::thread::continuation::CONTINUATION_POOL"}
TRACING_MACS = {"trace", "debug", "info", "warn", "error", "event", "$crate::event", "span", "$crate::span", "$crate::callsite2", "callsite2",
                "$crate::callsite", "trace_span", "debug_span", "info_span", "error_span", "warn_span", "instrument"}


def inventory(prog):
    inv = {}
    for k, it in prog.items.items():
        if it["crate"] not in CRATES:
            continue
        if it["crate"] == "shuttle_tokio_impl_inner" and "::time::" not in k:
            continue
        if "{constant#" in k or "::FOO" in k and "scoped" in " ".join(it.get("mac", [])):
            continue   # implementation items generated inside thread_local!/scoped_thread_local!
        mac = it.get("mac", [])
        if any(m in TRACING_MACS for m in mac) or "__CALLSITE" in k or "::META" in k:
            continue
        ty = it["ty"]
        kind = it["kind"]
        if kind.startswith("Static"):
            if it.get("freeze", True) and "ScopedKey" not in ty and not it.get("mutable"):
                continue
            inv[k] = it
        elif kind.startswith("Const") and "std::thread::local::LocalKey" in ty:
            inv[k] = it
    return inv


def r1_inventory(ctx):
    prog = ctx.prog
    inv = inventory(prog)
    ctx.floor("C14.R1", "static / thread-local items with interior mutability", len(inv), 12)
    rb = ctx.body(RUN, "C14.R1")
    S = [s for s, t in rb.calls() if any(c.startswith("scoped_tls::ScopedKey") and c.endswith("::set") for c in rb.callees_of_call(t, passed=False))]
    if not ctx.floor("C14.R1", "EXECUTION_STATE.set call in Execution::run", len(S), 1):
        return
    # cleanup is reached on every normally returning path of the run closure
    rc = ctx.closure(RUN, E + "Execution::run_to_completion", "C14.R1")
    rtc = [s for s, t in rc.calls() if E + "Execution::run_to_completion" in rc.callees_of_call(t, passed=False)]
    cleanup_ok = bool(rtc) and kinds.must_follow(prog, rc, rtc[0], {CLEANUP}) is None
    ctx.ob("C14.R1", "cleanup-reached", cleanup_ok,
           "every normally returning path of Execution::run after run_to_completion passes through ExecutionState::cleanup", loc=rc.loc())
    cleanup_resets = set()
    for k in inv:
        ms = kinds.resetting_mentions(prog, k)
        if any(kinds.root_fn(prog, b.nkey) == CLEANUP for b, s, kind in ms):
            cleanup_resets.add(k)
    for k, it in sorted(inv.items()):
        if k in SCOPED or "scoped_tls::ScopedKey" in it["ty"]:
            ok = k in SCOPED
            ctx.ob("C14.R1", "state|" + k, ok, "`%s` is a scoped key bound for the duration of a run%s" % (k, "" if ok else " — but it is not in the table of known scoped keys"),
                   loc="%s:%s" % (it.get("file"), it.get("line")))
            continue
        if k in TABLE:
            ctx.ob("C14.R1", "state|" + k, True, "`%s` is allow-listed: %s" % (k, TABLE[k]), loc="%s:%s" % (it.get("file"), it.get("line")), nontrivial=False)
            continue
        ok, how = kinds.reset_on_entry(prog, rb, S[0], k, exclude={"shuttle_engine::runtime::failure::persist_failure"})
        # a thread-local that holds a struct is reset only if every interior-mutable field of the struct is: re-initialising one field
        # (`init` replacing the schedule) says nothing about a counter that sits next to it
        flds = kinds.interior_fields(prog, it["ty"])
        if ok and len(flds) > 1:
            for fk, fty in flds:
                okf, howf = kinds.reset_on_entry(prog, rb, S[0], k, exclude={"shuttle_engine::runtime::failure::persist_failure"}, field=fk)
                if not okf:
                    ok, how = False, "field `%s` (%s) is not reset: %s" % (fk.rsplit(".", 1)[-1], fty, howf)
                    break
            else:
                how += "; every interior-mutable field (%s) individually" % ", ".join(f.rsplit(".", 1)[-1] for f, _ in flds)
        # cleanup alone is not enough: a failing execution unwinds out of Execution::run without reaching it, and the next
        # run on the same thread would start from the failed run's values (defect D8, fixed in /repo)
        if ok and k in cleanup_resets and cleanup_ok:
            how += "; also cleared in ExecutionState::cleanup"
        elif not ok and k in cleanup_resets:
            how = "only cleared in ExecutionState::cleanup, which a failing execution never reaches"
        ctx.ob("C14.R1", "state|" + k, ok,
               ("`%s` (%s) is reset per execution: %s" % (k, it["ty"].split("<", 1)[-1][:60], how)) if ok else
               ("`%s` of type %s survives from one execution to the next: it is neither overwritten on the run entry path nor cleared in cleanup (%s)" % (k, it["ty"], how)),
               loc="%s:%s" % (it.get("file"), it.get("line")))


def r2_fresh_state(ctx):
    prog = ctx.prog
    NEW = E + "ExecutionState::new"
    b = ctx.body(NEW, "C14.R2")
    sig = prog.fns.get(NEW)
    ok = sig is not None and len(sig["inputs"]) == 2 and "Config" in sig["inputs"][0] and "Scheduler" in sig["inputs"][1]
    ctx.ob("C14.R2", "params", ok, "ExecutionState::new takes exactly (Config, Rc<RefCell<dyn Scheduler>>): %s" % (sig["inputs"] if sig else None), loc=b.loc())
    inv = inventory(prog)
    amb = []
    for s in b.sites():
        st = b.at(s)
        for op in b.operands_of(st):
            if prog.const_items(op) & set(inv):
                amb.append(s)
    allowed_calls = re.compile(r"^(smallvec::SmallVec::new|shuttle_engine::runtime::storage::StorageMap::new|tracing::span::Span::current|"
                               r"alloc::vec::Vec::with_capacity|alloc::vec::Vec::new)$")
    other = [(s, c) for s, t in b.calls() for c in b.callees_of_call(t, passed=False) if not allowed_calls.search(c) and not c.startswith("core::")]
    ctx.ob("C14.R2", "no-ambient-state", not amb and not other,
           "ExecutionState::new reads no static/thread-local and only builds fresh containers" if not amb and not other else
           "ExecutionState::new reads ambient state or calls %s" % [c for s, c in other][:3], loc=b.loc())
    cal = kinds.callers(prog, NEW)
    kinds.check_who_may(ctx, "C14.R2", "caller of ExecutionState::new", {kinds.root_fn(prog, k) for k in cal}, {RUN})


def r3_cleanup(ctx):
    prog = ctx.prog
    b = ctx.body(CLEANUP, "C14.R3")
    bodies = [b] + [c for c in prog.all_bodies({"shuttle_engine"}) if c.parent == CLEANUP]
    def mentions(field):
        return any(kinds.mentions_field(x, s, field) for x in bodies for s in x.sites())
    def calls(name):
        return any(name in x.callees_of_call(t, passed=False) for x in bodies for s, t in x.calls())
    ctx.ob("C14.R3", "takes-tasks", mentions(E + "ExecutionState.tasks") and calls("core::mem::take"), "cleanup takes the task list out of the state (tasks and their stacks are dropped)", loc=b.loc())
    ctx.ob("C14.R3", "pops-storage", calls("shuttle_engine::runtime::storage::StorageMap::pop"), "cleanup pops the storage map (thread-locals of tasks, lazy statics, Once states)", loc=b.loc())
    # the pop is in a loop that runs until None
    pops = [(x, s) for x in bodies for s, t in x.calls() if "shuttle_engine::runtime::storage::StorageMap::pop" in x.callees_of_call(t, passed=False)]
    loop_ok = False
    for s, t in b.calls():
        if any(p[0].nkey in b.callees_of_call(t) for p in pops) or any(x is b for x, _ in pops):
            # is the call inside a cycle?
            if b.path_exists(s, lambda y, s=s: y == s) is not None:
                loop_ok = True
    ctx.ob("C14.R3", "pops-until-empty", loop_ok, "the storage pop in cleanup is inside a loop (repeated until the map is empty)", loc=b.loc())
    ctx.ob("C14.R3", "clears-live", mentions(E + "ExecutionState.live_tasks"), "cleanup clears live_tasks", loc=b.loc())
    # per-execution objects are keyed into ExecutionState storage
    GET = E + "ExecutionState::get_storage"
    INIT = E + "ExecutionState::init_storage"
    for f in ("shuttle_std::sync::once::Once::get_state", "shuttle_std::sync::once::Once::init_state", "shuttle::lazy_static::Lazy::get"):
        fb = prog.get(f)
        if fb is None:
            ctx.ob("C14.R3", "anchor|" + f, False, "function `%s` not found — rule not established" % f, nontrivial=False)
            continue
        reach = prog.may_reach([f])
        ctx.ob("C14.R3", "storage-keyed|" + f, bool(reach & {GET, INIT}), "`%s` keeps its per-execution state in ExecutionState storage" % f, loc=fb.loc())
    # StorageMap is written only by init/pop/new
    for field in ("locals", "order"):
        w = kinds.writers_of_field(prog, "shuttle_engine::runtime::storage::StorageMap." + field, {"shuttle_engine"}, kinds=("assign", "refmut", "call_dst"))
        allow = {"shuttle_engine::runtime::storage::StorageMap::" + m for m in ("new", "init", "pop")}
        kinds.check_who_may(ctx, "C14.R3", "mutator of StorageMap." + field, set(w), allow, {k: v[0][0].loc(v[0][1]) for k, v in w.items()})


def r4_recycling(ctx):
    prog = ctx.prog
    C = "shuttle_engine::runtime::thread::continuation::"
    d = ctx.body("<" + C + "PooledContinuation as core::ops::drop::Drop>::drop", "C14.R4")
    pushes = [s for s, t in d.calls() if "alloc::collections::vec_deque::VecDeque::push_back" in d.callees_of_call(t, passed=False)]
    if not ctx.floor("C14.R4", "push_back into the continuation pool", len(pushes), 2):
        return
    sl = Slicer(d, control=True)
    cd = control_deps(d)
    REUSABLE = C + "Continuation::reusable"
    for i, s in enumerate(pushes):
        labs = set()
        for sw in cd.get(s.bb, ()):
            l, _ = sl.slice_operand(d.term(sw)["discr"])
            labs |= l
        by_reusable = ("call:" + REUSABLE) in labs
        # either the push is on the `reusable()==true` edge, or the stored function is replaced by None before it
        br = None
        for rs, rt in d.calls():
            if REUSABLE in d.callees_of_call(rt, passed=False):
                br = kinds.bool_branch(d, rs)
        on_true = br is not None and d.path_exists(Site(br[0], 0), lambda x, s=s: x == s, start_inclusive=True) is not None \
            and d.path_exists(Site(br[1], 0), lambda x, s=s: x == s, start_inclusive=True) is None
        replaced = kinds.must_precede(prog, d, s, {"core::cell::Cell::replace", "core::cell::Cell::take", "core::cell::Cell::set"}) is None
        state_checked = ("field:" + C + "Continuation.state") in labs
        ok = by_reusable and (on_true or (replaced and state_checked))
        ctx.ob("C14.R4", "pooled-only-if-clean|#%d" % i, ok,
               "push_back #%d into the pool is %s" % (i, "on the reusable() branch" if on_true else
                                                      "after the un-run function was taken out of the cell (state test + Cell::replace)" if (replaced and state_checked) else
                                                      "NOT guarded by reusable() nor preceded by removal of the stored function"), loc=d.loc(s))
    # who writes the function cell
    init = ctx.body(C + "Continuation::initialize", "C14.R4")
    cal = {}
    for b in prog.all_bodies({"shuttle_engine"}):
        for s, t in b.calls():
            if b.callees_of_call(t, passed=False) & {"core::cell::Cell::replace", "core::cell::Cell::set"} and \
                    any("ContinuationFunction" in b.local_ty(l) or "dyn core::ops::function::FnOnce" in b.local_ty(l)
                        for a in t["args"] for l in [operand_local(a)] if l is not None):
                cal.setdefault(kinds.root_fn(prog, b.nkey), (b, s))
    kinds.check_who_may(ctx, "C14.R4", "writer of the continuation function cell", set(cal),
                        {C + "Continuation::initialize", "<" + C + "PooledContinuation as core::ops::drop::Drop>::drop"},
                        {k: v[0].loc(v[1]) for k, v in cal.items()})


def r5_unfinished_stacks_unwound(ctx):
    """The stack of a task that is still inside its function when the execution ends (abandoned execution, detached task) is unwound, so
    the values on it are destroyed before the next execution.  The only exception in the source is a process that is already panicking."""
    prog = ctx.prog
    C = "shuttle_engine::runtime::thread::continuation::"
    d = ctx.body("<" + C + "Continuation as core::ops::drop::Drop>::drop", "C14.R5")
    resets = [s for s, t in d.calls() if any(c.endswith("::force_reset") for c in d.callees_of_call(t, passed=False))]
    unw = [s for s, t in d.calls() if any(c.endswith("::force_unwind") for c in d.callees_of_call(t, passed=False))]
    pk = [s for s, t in d.calls() if any(c.startswith("std::") and c.endswith("::panicking") for c in d.callees_of_call(t, passed=False))]
    ctx.floor("C14.R5", "std::thread::panicking() test in Continuation::drop", len(pk), 1)
    ctx.floor("C14.R5", "force_unwind in Continuation::drop", len(unw), 1)
    panicking_edges = set()
    for s in pk:
        br = kinds.bool_branch(d, s)
        if br:
            for src in d.pred[br[0]]:
                if d.term(src).get("k") == "switch":
                    panicking_edges.add((src, br[0]))
    for i, r in enumerate(resets):
        w = d.path_exists(None, lambda x, r=r: x == r, edge_ok=lambda a, nb: (a, nb) not in panicking_edges)
        ctx.ob("C14.R5", "leak-only-while-panicking|#%d" % i, bool(panicking_edges) and w is None,
               "Continuation::drop skips unwinding an in-flight stack (force_reset) only on the `std::thread::panicking()` edge" if (panicking_edges and w is None) else
               "Continuation::drop can discard an in-flight task's stack without unwinding it (force_reset) although the thread is not panicking: values on the "
               "stacks of an abandoned execution survive into the next execution", loc=d.loc(r))
    # the in-flight arm reaches force_unwind when not panicking
    if pk and unw:
        br = kinds.bool_branch(d, pk[0])
        ok = br is not None and d.path_exists(Site(br[1], 0), d.is_return, lambda x: x in set(unw), start_inclusive=True) is None
        ctx.ob("C14.R5", "unwound-when-not-panicking", ok, "on the not-panicking edge every path to return unwinds the coroutine", loc=d.loc(unw[0]))


RULES = [("C14.R1", r1_inventory), ("C14.R2", r2_fresh_state), ("C14.R3", r3_cleanup), ("C14.R4", r4_recycling), ("C14.R5", r5_unfinished_stacks_unwound)]
