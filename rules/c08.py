"""C08 — the runtime honours the Scheduler contract: single consultation site (K1), argument provenance (K8/K2),
the choice is what runs (dataflow), transparent wrappers (K6)."""
from engine import kinds
from engine.facts import Site, Slicer, norm, operand_local, control_deps, last_field
from rules.c01 import scheduler_impls, impl_method, WRAPPERS

CRATES = {"shuttle_engine", "shuttle_schedulers"}
# the `annotation` feature does not type-check at the pinned commit (E0308 in shuttle-engine/src/annotations/mod.rs, untouched by any fix), so that
# configuration cannot be extracted; `plain` (no vector clocks) is the second configuration instead
CONFIGS_THOROUGH = ["vc", "plain"]
EXPLANATION = (
    "Static decision of structural clauses of C08. (R1) outside forwarding `impl Scheduler` bodies, Scheduler::next_task is "
    "consulted at exactly one site of the engine and Scheduler::new_execution only in Runner::run. (R2) at that site: argument 1 "
    "is the slice view of runnable_tasks, which is filled only inside the loop over live_tasks from tasks whose runnable() or "
    "can_spuriously_wakeup() held, and is cleared on the way out; argument 2 is current_task.id(); argument 3 is obtained by "
    "mem::replace(&mut has_yielded, false); has_yielded has only {request_yield, that replace} as writers. (R3) the result "
    "flows (map / unwrap_or(Stopped)) only into next_task, next_task only into current_task, and the continuation resumed "
    "is that of current_task. (R4) every wrapper scheduler forwards exactly its three parameters, unmodified, and returns the "
    "inner result (or None on its documented stop branch); likewise next_u64/new_execution.")
NOT_DECIDED = "non-emptiness and distinctness of the offered list as runtime facts (they follow from R2 and the live_tasks invariant asserted in debug builds)"
ASSUMPTIONS = ["closures are run where they are passed"]

E = "shuttle_engine::runtime::execution::"
ES = E + "ExecutionState::"
NT = "shuttle_engine::scheduler::Scheduler::next_task"
NE = "shuttle_engine::scheduler::Scheduler::new_execution"


def _is_trait_call(names, meth):
    return any(n == "shuttle_engine::scheduler::Scheduler::" + meth or n.endswith("shuttle_engine::scheduler::Scheduler>::" + meth) for n in names)


def _impl_roots(prog):
    out = set()
    for im in scheduler_impls(prog):
        for m in im["items"]:
            out.add(norm(m["key"]))
    return out


def r1_single_site(ctx):
    prog = ctx.prog
    impls = _impl_roots(prog)
    nt_sites, ne_sites = [], []
    for b in prog.all_bodies(CRATES):
        root = kinds.root_fn(prog, b.nkey)
        if root in impls or "::tests::" in b.nkey or "::test::" in b.nkey:
            continue
        for s, t in b.calls():
            names = b.callees_of_call(t, passed=False)
            if _is_trait_call(names, "next_task"):
                nt_sites.append((root, b, s))
            if _is_trait_call(names, "new_execution"):
                ne_sites.append((root, b, s))
    ctx.ob("C08.R1", "single-next_task-site", [r for r, b, s in nt_sites] == [ES + "schedule"],
           "Scheduler::next_task is consulted only in ExecutionState::schedule: %s" % [r for r, b, s in nt_sites],
           loc=nt_sites[0][1].loc(nt_sites[0][2]) if nt_sites else None)
    ctx.ob("C08.R1", "single-new_execution-site", [r for r, b, s in ne_sites] == ["shuttle_engine::runtime::runner::Runner::run"],
           "Scheduler::new_execution is consulted only in Runner::run: %s" % [r for r, b, s in ne_sites],
           loc=ne_sites[0][1].loc(ne_sites[0][2]) if ne_sites else None)


def r2_arguments(ctx):
    prog = ctx.prog
    sch = ctx.body(ES + "schedule", "C08.R2")
    site = [(s, t) for s, t in sch.calls() if _is_trait_call(sch.callees_of_call(t, passed=False), "next_task")]
    if not ctx.floor("C08.R2", "next_task call in schedule", len(site), 1):
        return
    s, t = site[0]
    sl = Slicer(sch, control=True)
    la1, _ = sl.slice_operand(t["args"][1])
    ctx.ob("C08.R2", "arg1-runnable_tasks", ("field:" + E + "ExecutionState.runnable_tasks") in la1,
           "the task list given to next_task is the view of ExecutionState.runnable_tasks", loc=sch.loc(s))
    RUN = E + "ExecutionState.runnable_tasks"
    pushes = [x for x, tt in sch.calls() if "alloc::vec::Vec::push" in sch.callees_of_call(tt, passed=False)]
    cd = control_deps(sch)
    good = bool(pushes)
    for x in pushes:
        labs = set()
        for sw in cd.get(x.bb, ()):
            l, _ = sl.slice_operand(sch.term(sw)["discr"])
            labs |= l
        elig = any(l.endswith("Task::runnable") for l in labs) or any(l.endswith("Task::can_spuriously_wakeup") for l in labs)
        from_live = ("field:" + E + "ExecutionState.live_tasks") in sl.slice_operand(sch.term(x.bb)["args"][1])[0]
        good &= elig and from_live
    ctx.ob("C08.R2", "list-filled-from-eligible-live-tasks", good,
           "runnable_tasks is pushed to only under runnable()/can_spuriously_wakeup() and only with tasks taken from live_tasks (%d push sites)" % len(pushes), loc=sch.loc())
    # ascending id order: live_tasks is kept in creation (= id) order (C01.R5), so the offered list is ascending iff it is filled by ONE
    # in-order pass over live_tasks; a second pass that appends (e.g. the spuriously wakeable tasks after the runnable ones) breaks the order
    nexts = [x for x, tt in sch.calls() if any(c.endswith("Iterator>::next") or c.endswith("Iterator::next") for c in sch.callees_of_call(tt, passed=False))
             and ("field:" + E + "ExecutionState.live_tasks") in sl.slice_operand(tt["args"][0])[0]]
    loops = set()
    for x in pushes:
        hs = [n for n in nexts if sch.site_dominates(n, x) and sch.path_exists(x, lambda y, n=n: y == n) is not None]
        loops.add(tuple(sorted(hs, key=lambda n: (n.bb, n.idx))[-1:]))
    # bulk additions (extend / append / insert ...) are a pass of their own that this rule cannot order against the loop
    import re as _re
    from rules.c18 import _calls_on_field
    bulk = [x for x, tt in _calls_on_field(prog, sch, RUN, _re.compile(r"Vec::(extend|extend_from_slice|append|insert|splice|resize|resize_with|extend_from_within)$|Extend>::extend$"))]
    one_pass = bool(pushes) and len(loops) == 1 and loops != {()} and not bulk
    ctx.ob("C08.R2", "list-filled-in-one-ordered-pass", one_pass,
           "every push onto runnable_tasks happens in the same single pass over live_tasks (ascending ids)" if one_pass else
           "runnable_tasks is filled by %d different passes over live_tasks (or outside any): tasks appended by a later pass come after higher ids, "
           "so the list handed to the scheduler is no longer in ascending id order" % len(loops), loc=sch.loc(pushes[0]) if pushes else sch.loc())
    w = kinds.writers_of_field(prog, RUN, {"shuttle_engine"}, kinds=("assign", "refmut", "call_dst"))
    kinds.check_who_may(ctx, "C08.R2", "mutator of ExecutionState.runnable_tasks", set(w), {ES + "schedule"})
    clears = [x for x, tt in sch.calls() if "alloc::vec::Vec::clear" in sch.callees_of_call(tt, passed=False)]
    ok = bool(clears) and sch.path_exists(s, sch.is_return, lambda y: y in set(clears)) is None
    ctx.ob("C08.R2", "list-cleared-after-call", ok, "after the consultation every path to return clears runnable_tasks (no stale task references)", loc=sch.loc())
    la2, _ = sl.slice_operand(t["args"][2])
    ctx.ob("C08.R2", "arg2-current-id", ("field:" + E + "ExecutionState.current_task") in la2 and any(l.endswith("ScheduledTask::id") for l in la2),
           "the second argument is current_task.id()", loc=sch.loc(s))
    la3, _ = sl.slice_operand(t["args"][3])
    HY = E + "ExecutionState.has_yielded"
    swapped = "call:core::mem::replace" in la3
    # equivalent spelling: read the flag, then store `false` into it on every path to the consultation
    resets = [x for x, st in sch.assigns() if last_field(st["dst"]) == HY and st["rv"]["k"] == "use" and st["rv"]["ops"][0].get("k") == "const" and st["rv"]["ops"][0].get("ev") == 0]
    reset_before = bool(resets) and sch.path_exists(None, lambda y: y == s, lambda y: y in set(resets)) is None
    ctx.ob("C08.R2", "arg3-yield-flag-swap", ("field:" + HY) in la3 and (swapped or reset_before),
           "the yielding flag is read from has_yielded and consumed (reset to false) by the very decision that reports it — set exactly for the decision after a yield request",
           loc=sch.loc(s))
    w = kinds.writers_of_field(prog, E + "ExecutionState.has_yielded", {"shuttle_engine"}, kinds=("assign", "refmut", "call_dst"))
    kinds.check_who_may(ctx, "C08.R2", "writer of ExecutionState.has_yielded", set(w), {ES + "request_yield", ES + "schedule"},
                        required={ES + "request_yield", ES + "schedule"})


def r3_choice_runs(ctx):
    prog = ctx.prog
    sch = ctx.body(ES + "schedule", "C08.R3")
    NEXT = E + "ExecutionState.next_task"
    site = [(s, t) for s, t in sch.calls() if _is_trait_call(sch.callees_of_call(t, passed=False), "next_task")]
    if not site:
        return
    s, t = site[0]
    res = t["dst"]["l"]
    # next_task assignments after the consultation derive from the call result
    sl = Slicer(sch, alias_defs=False)
    writes = [x for x in sch.reach_sites(s) if sch.at(x).get("k") in ("assign", "call") and last_field(sch.at(x).get("dst", {"l": 0})) == NEXT]
    ok = bool(writes)
    for x in writes:
        st = sch.at(x)
        ops = st["args"] if st.get("k") == "call" else st["rv"].get("ops", [])
        sl.slice_locals([operand_local(o) for o in ops if operand_local(o) is not None])
        ok &= s in sl.sites
    ctx.ob("C08.R3", "result-into-next_task", ok, "after the consultation, next_task is assigned only from the scheduler's answer (map(Some) / unwrap_or(Stopped))", loc=sch.loc(s))
    stopped = [x for x, tt in sch.calls() if any(c.endswith("Option::unwrap_or") for c in sch.callees_of_call(tt, passed=False))]
    okv = False
    for x in stopped:
        a = sch.term(x.bb)["args"][1]
        v = kinds.operand_enum_variant(sch, a)
        okv |= (v == "Stopped")
    ctx.ob("C08.R3", "none-means-stopped", okv, "a `None` answer becomes ScheduledTask::Stopped (execution ends without failure)", loc=sch.loc())
    # next_task flows only into current_task (advance), and the continuation resumed is current_task's
    adv = ctx.body(ES + "advance_to_next_task", "C08.R3")
    cur_w = [x for x in adv.sites() if adv.at(x).get("k") in ("assign", "call") and last_field(adv.at(x).get("dst", {"l": 0})) == E + "ExecutionState.current_task"]
    ok = False
    sla = Slicer(adv)
    for x in cur_w:
        st = adv.at(x)
        ops = st["args"] if st.get("k") == "call" else st["rv"].get("ops", [])
        labs = set()
        for o in ops:
            labs |= sla.slice_operand(o)[0]
        ok |= ("field:" + NEXT) in labs
    ctx.ob("C08.R3", "next-into-current", ok, "advance_to_next_task moves next_task into current_task", loc=adv.loc())
    c0 = ctx.closure(E + "Execution::run_to_completion", ES + "schedule", "C08.R3")
    if c0 is not None:
        slc = Slicer(c0)
        somes = [(x, st) for x, st in c0.assigns() if st["rv"]["k"] == "aggr" and st["rv"].get("variant") == "Some"]
        ok = False
        for x, st in somes:
            labs, _ = slc.slice_operand(st["rv"]["ops"][0])
            if "field:shuttle_engine::runtime::task::Task.continuation" in labs and ("field:" + E + "ExecutionState.current_task") in labs | slc.slice_locals(list(slc.defs))[0]:
                ok = True
        ctx.ob("C08.R3", "resumes-current", ok, "the continuation handed out for resumption is Task.continuation of the task named by current_task", loc=c0.loc())
    nr = [b for b in prog.all_bodies({"shuttle_engine"}) if any("Continuation::resume" in c and "resume_with_input" not in c for s2, t2 in b.calls() for c in b.callees_of_call(t2, passed=False))]
    roots = {kinds.root_fn(prog, b.nkey) for b in nr if "::tests::" not in b.nkey}
    kinds.check_who_may(ctx, "C08.R3", "caller of Continuation::resume", roots, {E + "Execution::run_to_completion"})


def _root_param(body, sl, op, depth=0):
    l = operand_local(op)
    if l is None:
        return None
    if 1 <= l <= body.arg_count and not op["pl"].get("p"):
        return l
    defs = [st for (s, st) in sl.defs.get(l, []) if st.get("k") == "assign"]
    if len(defs) == 1 and defs[0]["rv"]["k"] in ("use", "cast", "copy_for_deref") and depth < 6 and not op["pl"].get("p"):
        if defs[0]["rv"]["k"] == "copy_for_deref":
            return None
        return _root_param(body, sl, defs[0]["rv"]["ops"][0], depth + 1)
    if len(defs) == 1 and defs[0]["rv"]["k"] == "ref" and depth < 6:
        pl = defs[0]["rv"]["pl"]
        if pl.get("p") == ["*"]:
            return _root_param(body, sl, {"k": "copy", "pl": {"l": pl["l"]}}, depth + 1)
    return None


def r4_wrappers(ctx):
    prog = ctx.prog
    n = 0
    for im in scheduler_impls(prog):
        st = im.get("self_ty", "")
        if not any(w in st for w in WRAPPERS):
            continue
        for meth, nargs in (("next_task", 3), ("next_u64", 0), ("new_execution", 0)):
            b = impl_method(prog, im, meth)
            if b is None:
                continue
            inner = [(s, t) for s, t in b.calls() if _is_trait_call(b.callees_of_call(t, passed=False), meth) or
                     any(c.endswith("Scheduler>::" + meth) for c in b.callees_of_call(t, passed=False))]
            if not inner:
                ctx.ob("C08.R4", "forwards|%s|%s" % (st, meth), False, "wrapper `%s::%s` does not forward to its inner scheduler" % (st, meth), loc=b.loc())
                continue
            n += 1
            sl = Slicer(b, alias_defs=False)
            for s, t in inner:
                okargs = True
                for k in range(1, nargs + 1):
                    okargs &= (_root_param(b, sl, t["args"][k]) == k + 1)
                ctx.ob("C08.R4", "args-unchanged|%s|%s" % (st, meth), okargs,
                       ("wrapper `%s::%s` passes its parameters to the inner scheduler unchanged" % (st, meth)) if okargs else
                       ("wrapper `%s::%s` does not pass its own parameters through unchanged (argument %s)" %
                        (st, meth, [k for k in range(1, nargs + 1) if _root_param(b, sl, t["args"][k]) != k + 1])), loc=b.loc(s))
            # the returned value comes from the inner call (or is the documented None / recorded value)
            slr = Slicer(b, alias_defs=False, control=False)
            slr.slice_locals([0])
            from_inner = any(s in slr.sites for s, t in inner)
            ctx.ob("C08.R4", "returns-inner|%s|%s" % (st, meth), from_inner, "wrapper `%s::%s` returns the inner scheduler's answer" % (st, meth), loc=b.loc())
            if meth == "next_task":
                # Some(x) built by the wrapper must carry the inner payload
                for x, stt in b.assigns():
                    rv = stt["rv"]
                    if rv["k"] == "aggr" and rv.get("variant") == "Some" and stt["dst"]["l"] == 0:
                        sl2 = Slicer(b, alias_defs=False)
                        sl2.slice_operand(rv["ops"][0])
                        ctx.ob("C08.R4", "some-carries-inner|%s" % st, any(s in sl2.sites for s, t in inner),
                               "`Some(choice)` returned by `%s::next_task` carries the inner scheduler's choice" % st, loc=b.loc(x))
    ctx.floor("C08.R4", "forwarding methods of wrapper schedulers", n, 12)


RULES = [("C08.R1", r1_single_site), ("C08.R2", r2_arguments), ("C08.R3", r3_choice_runs), ("C08.R4", r4_wrappers)]
