"""C13 — bounds (narrow): the step bound is consulted before every append to the recorded schedule (K2), both step
kinds count (K1), ContinueAfter is silent and does not consult the scheduler (K3/K4), time limit between iterations (K1)."""
from engine import kinds
from engine.facts import Site, Slicer, norm, operand_local, control_deps, last_field
from engine.slicing import FlowSlicer, expand_closure_labels, resolve_upvars

CRATES = {"shuttle_engine", "shuttle_schedulers", "shuttle"}
EXPLANATION = (
    "Static decision of a necessary condition of C13: (R1) every append to the recorded schedule is preceded by the bound test — "
    "(i) in ExecutionState::schedule the consultation of the scheduler is dominated by the match on config.max_steps whose "
    "FailAfter/ContinueAfter arms call the bound predicate, (ii) every call of advance_to_next_task (append of a task step) is "
    "preceded by schedule(), (iii) every call of push_random (append of a draw) is preceded by the bound predicate; (R2) the "
    "predicate reads CurrentSchedule::len() and steps_reset_at, Schedule::len is steps.len(), both push_task and push_random "
    "push onto steps, and steps_reset_at has a single writer; (R3) the ContinueAfter arm sets next_task = Stopped and returns Ok "
    "without consulting the scheduler; (R4) Instant::elapsed is called only in Runner::run's loop header, which dominates "
    "new_execution, and the returned counter is incremented once per iteration after execution.run.")
NOT_DECIDED = "off-by-one of the comparison (>= vs >), iteration arithmetic of the schedulers' budgets"
ASSUMPTIONS = []

E = "shuttle_engine::runtime::execution::"
ES = E + "ExecutionState::"
CS = E + "CurrentSchedule::"
BOUND = ES + "is_step_bound_exceeded"


def r1_bound_before_append(ctx):
    prog = ctx.prog
    sch = ctx.body(ES + "schedule", "C13.R1")
    cons = [(s, t) for s, t in sch.calls() if any(c.endswith("Scheduler::next_task") or c.endswith("Scheduler>::next_task") for c in sch.callees_of_call(t, passed=False))]
    if ctx.floor("C13.R1", "scheduler consultation in schedule()", len(cons), 1):
        s = cons[0][0]
        # (i) a switch on discriminant(config.max_steps) dominates the consultation and its arms reach the predicate
        sl = Slicer(sch, alias_defs=False)
        dom_sw = None
        for blk in sch.blocks:
            t = blk["term"]
            if t["k"] != "switch" or blk.get("cleanup"):
                continue
            if kinds.discr_subject_field(sch, sl, t["discr"]) == "shuttle_engine::config::Config.max_steps" and sch.site_dominates(sch.term_site(blk["id"]), s):
                dom_sw = blk
        ok = dom_sw is not None
        n_arms = 0
        if ok:
            for v, tgt in dom_sw["term"]["arms"]:
                reach = sch.reach_sites(Site(tgt, 0), is_avoid=lambda x: x == s, start_inclusive=True)
                if any(sch.is_term(x) and sch.term(x.bb)["k"] == "call" and BOUND in sch.callees_of_call(sch.term(x.bb), passed=False) for x in reach):
                    n_arms += 1
        ctx.ob("C13.R1", "bound-before-consultation", ok and n_arms >= 2,
               "the consultation of the scheduler in schedule() is dominated by the match on config.max_steps, %d arms of which test the step bound" % n_arms,
               loc=sch.loc(s))
        # on the FailAfter/ContinueAfter arms: bound exceeded => the consultation is not reached
        bs = [x for x, tt in sch.calls() if BOUND in sch.callees_of_call(tt, passed=False)]
        stopped = 0
        for x in bs:
            br = kinds.bool_branch(sch, x)
            if br is not None and sch.path_exists(Site(br[0], 0), lambda y: y == s, start_inclusive=True) is None:
                stopped += 1
        ctx.ob("C13.R1", "exceeded-means-no-consultation", stopped == len(bs) and len(bs) >= 2,
               "on each of the %d bound tests, the `exceeded` edge never reaches the scheduler consultation" % len(bs), loc=sch.loc())
        # the bound is consulted by EVERY scheduling step, also by the one that only finds out that nothing is left to run: an execution
        # that has used exactly n steps when it finishes or deadlocks is still stopped by the bound (FailAfter reports the bound,
        # ContinueAfter abandons silently instead of reporting a deadlock)
        CSW = E + "ExecutionState.context_switches"
        incs = [x for x, st in sch.assigns() if last_field(st["dst"]) == CSW]
        ms_sites = set()
        for blk in sch.blocks:
            t = blk["term"]
            if t["k"] == "switch" and not blk.get("cleanup") and kinds.discr_subject_field(sch, sl, t["discr"]) == "shuttle_engine::config::Config.max_steps":
                ms_sites.add(sch.term_site(blk["id"]))
        w = sch.path_exists(incs[0], sch.is_return, lambda x: x in ms_sites) if incs and ms_sites else True
        ctx.ob("C13.R1", "bound-consulted-by-every-step", bool(incs) and bool(ms_sites) and w is None,
               "every path of schedule() that counts a step goes through the match on config.max_steps before it returns (also the paths that end in Finished / Deadlock)"
               if (incs and ms_sites and w is None) else
               "schedule() can count a step and return (e.g. with Finished or Deadlock) without consulting config.max_steps: an execution that reaches the bound "
               "exactly when nothing is left to schedule is not stopped by it", loc=sch.loc())
    # (ii) every advance is preceded by schedule()
    ADV = ES + "advance_to_next_task"
    cal = kinds.callers(prog, ADV)
    ctx.floor("C13.R1", "callers of advance_to_next_task", len(cal), 2)
    for k, sites in sorted(cal.items()):
        for b, s in sites:
            w = kinds.must_precede(prog, b, s, {ES + "schedule"})
            ctx.ob("C13.R1", "schedule-before-advance|" + k, w is None, "`%s` appends a task step only after schedule() (which tests the bound)" % k, loc=b.loc(s))
    # (iii) every push_random is preceded by the bound predicate
    cal = kinds.callers(prog, CS + "push_random")
    for k, sites in sorted(cal.items()):
        for b, s in sites:
            w = kinds.must_precede(prog, b, s, {BOUND, ES + "schedule"})
            root = kinds.root_fn(prog, k)
            ctx.ob("C13.R1", "bound-before-draw|" + root, w is None,
                   "`%s` appends a random step only after the step bound was tested" % root if w is None else
                   "`%s` appends a random-draw step (push_random at %s) without consulting the step bound: a body that only draws random numbers "
                   "exceeds max_steps unboundedly before the next scheduling decision" % (root, b.loc(s)), loc=b.loc(s))


def r2_both_kinds_count(ctx):
    prog = ctx.prog
    bp = ctx.body(BOUND, "C13.R2")
    calls = {c for s, t in bp.calls() for c in bp.callees_of_call(t, passed=False)}
    reads_reset = any(kinds.mentions_field(bp, s, E + "ExecutionState.steps_reset_at") for s in bp.sites())
    ctx.ob("C13.R2", "predicate-reads-len", (CS + "len") in calls and reads_reset, "the bound predicate compares CurrentSchedule::len() - steps_reset_at with the bound", loc=bp.loc())
    S = "shuttle_engine::scheduler::Schedule"
    ln = ctx.body(S + "::len", "C13.R2")
    ctx.ob("C13.R2", "len-is-steps-len", any(kinds.mentions_field(ln, s, S + ".steps") for s in ln.sites()), "Schedule::len is steps.len()", loc=ln.loc())
    for m in ("push_task", "push_random"):
        b = ctx.body(S + "::" + m, "C13.R2")
        ok = any(kinds.mentions_field(b, s, S + ".steps") for s in b.sites()) and any("Vec::push" in c for s, t in b.calls() for c in b.callees_of_call(t, passed=False))
        ctx.ob("C13.R2", "counts|" + m, ok, "Schedule::%s pushes onto `steps` (so it counts towards the bound)" % m, loc=b.loc())
    w = kinds.writers_of_field(prog, E + "ExecutionState.steps_reset_at", None, kinds=("assign", "call_dst", "refmut"))
    # whoever resets the count must record it in the unit the predicate measures in: the current schedule length (task steps AND
    # random draws).  (This replaces a who-may-write table: moving the write into a helper is fine, writing another counter is not.)
    n = 0
    for k, sites in sorted(w.items()):
        for b, s, kind in sites:
            n += 1
            st = b.at(s)
            ok = False
            if kind == "assign" and st.get("k") == "assign":
                labs = expand_closure_labels(prog, resolve_upvars(prog, b, FlowSlicer(b, control=False).operand_labels(st["rv"]["ops"][0], s))) if st["rv"].get("ops") else set()
                ok = ("call:" + CS + "len") in labs and not any(l.startswith("field:") and l.endswith(("context_switches", ".steps")) for l in labs)
            ctx.ob("C13.R2", "reset-in-schedule-length-units|" + k, ok,
                   "`%s` sets steps_reset_at to CurrentSchedule::len()" % k if ok else
                   "`%s` writes steps_reset_at from something other than CurrentSchedule::len(): the predicate subtracts it from the schedule length, "
                   "so a reset would start the count at the wrong value (random draws are steps too)" % k, loc=b.loc(s))
    ctx.floor("C13.R2", "writes of steps_reset_at", n, 1)


def r3_continue_after(ctx):
    prog = ctx.prog
    sch = ctx.body(ES + "schedule", "C13.R3")
    NEXT = E + "ExecutionState.next_task"
    # writes `next_task = Stopped` that are control dependent on the bound predicate
    sl = Slicer(sch, control=True)
    cd = control_deps(sch)
    cons = [s for s, t in sch.calls() if any(c.endswith("Scheduler::next_task") or c.endswith("Scheduler>::next_task") for c in sch.callees_of_call(t, passed=False))]
    found = 0
    for s, st in sch.assigns():
        if last_field(st["dst"]) != NEXT:
            continue
        v = st["rv"].get("variant") if st["rv"]["k"] == "aggr" else kinds.operand_enum_variant(sch, st["rv"]["ops"][0]) if st["rv"].get("ops") else None
        if v != "Stopped":
            continue
        labs = set()
        for sw in cd.get(s.bb, ()):
            l, _ = sl.slice_operand(sch.term(sw)["discr"])
            labs |= l
        if ("call:" + BOUND) in labs:
            found += 1
            no_cons = all(sch.path_exists(s, lambda y, c=c: y == c) is None for c in cons)
            # no StepError is built on the way out
            err = [x for x in sch.reach_sites(s) if sch.at(x).get("k") == "assign" and sch.at(x)["rv"]["k"] == "aggr" and "StepError" in sch.at(x)["rv"].get("adt", "")]
            ctx.ob("C13.R3", "continue-after-stops-silently", no_cons and not err,
                   "under ContinueAfter, an exceeded bound sets next_task = Stopped and returns Ok without consulting the scheduler or building an error", loc=sch.loc(s))
    ctx.floor("C13.R3", "`next_task = Stopped` under the bound test", found, 1)
    # "abandoned silently and the run goes on": cleanup unwinds the stacks of the abandoned execution's in-flight tasks; a guard on such a
    # stack reaches thread::switch() from its Drop.  maybe_yield must recognise that state before it asserts anything about current_task
    # or consults the scheduler — a panic there is a panic in a destructor during an unwind, i.e. a process abort (defect D9).
    my = ctx.closure(ES + "maybe_yield", ES + "schedule", "C13.R3")
    sched = [s for s, t in my.calls() if ES + "schedule" in my.callees_of_call(t, passed=False)]
    panics = [s for s, t in my.calls() if any(kinds.PANIC_RE.search(c) for c in my.callees_of_call(t, passed=False))]
    fsm = FlowSlicer(my)
    exits = []
    for s, st in my.assigns():
        if st["dst"]["l"] == 0 and not st["dst"].get("p") and st["rv"]["k"] == "use" and st["rv"]["ops"][0].get("k") == "const" and st["rv"]["ops"][0].get("ev") == 0:
            g = fsm.guard_labels(s)
            if ("field:" + E + "ExecutionState.in_cleanup") in g and ("field:" + E + "ExecutionState.current_task") in g:
                before = my.path_exists(None, lambda x, s=s: x == s, lambda x: x in set(sched) | set(panics)) is not None
                if before:
                    exits.append(s)
    ok = bool(exits)
    if ok:
        # the test that leads to that exit is evaluated on every path to the assertion and to schedule()
        sws = [sw for sw in control_deps(my).get(exits[0].bb, ()) if ("field:" + E + "ExecutionState.in_cleanup") in
               FlowSlicer(my, control=False).operand_labels(my.term(sw)["discr"], my.term_site(sw))]
        ok = bool(sws) and all(any(my.site_dominates(my.term_site(sw), x) for sw in sws) for x in sched + panics)
    ctx.ob("C13.R3", "stopped-cleanup-is-a-no-op", ok,
           "maybe_yield returns false (no assertion, no scheduler consultation, no suspension) when reached while a stopped execution is being cleaned up" if ok else
           "maybe_yield has no early `return false` for (in_cleanup && current_task == Stopped) ahead of its state assertion / schedule(): a destructor of an "
           "abandoned execution's in-flight task that reaches a scheduling point panics during the unwind and aborts the process", loc=my.loc())


def r4_time_limit(ctx):
    prog = ctx.prog
    R = "shuttle_engine::runtime::runner::Runner::run"
    users = set()
    for b in prog.all_bodies(CRATES):
        if "::tests::" in b.nkey:
            continue
        for s, t in b.calls():
            if any(c in ("std::time::Instant::elapsed", "std::time::Instant::now") for c in b.callees_of_call(t, passed=False)):
                users.add(kinds.root_fn(prog, b.nkey))
    kinds.check_who_may(ctx, "C13.R4", "user of Instant::{now,elapsed}", users, {R})
    # the loop body lives in the closure handed to CONTINUATION_POOL.set
    bodies = [b for b in prog.all_bodies({"shuttle_engine"}) if kinds.root_fn(prog, b.nkey) == R]
    ok = False
    inc_ok = False
    for b in bodies:
        el = [s for s, t in b.calls() if any(c.endswith("Instant::elapsed") for c in b.callees_of_call(t)) or
              any("Instant::elapsed" in x for c in b.passed_callables(t) for x in prog.callgraph.get(c, ()))]
        ne = [s for s, t in b.calls() if any(c.endswith("Scheduler::new_execution") or c.endswith("Scheduler>::new_execution") for c in b.callees_of_call(t, passed=False))]
        ex = [s for s, t in b.calls() if any(c.endswith("Execution::run") for c in prog.may_reach(list(b.callees_of_call(t))) if True) and
              any("in_scope" in c or c.endswith("Execution::run") for c in b.callees_of_call(t, passed=False))]
        if el and ne:
            ok = all(b.site_dominates(el[0], n) for n in ne)
            # counter increments: AddWithOverflow/Add by const 1 after execution.run, once per loop iteration
            incs = [s for s, st in b.assigns() if st["rv"]["k"] == "binop" and st["rv"].get("op") in ("Add", "AddWithOverflow") and
                    any(kinds.operand_const(b, o) == 1 for o in st["rv"]["ops"])]
            inc_ok = len(incs) == 1 and bool(ex) and all(b.site_dominates(e, incs[0]) for e in ex[:1])
    ctx.ob("C13.R4", "limit-checked-in-loop-header", ok, "the time limit test (Instant::elapsed) dominates new_execution in Runner::run's loop: it is read only between iterations")
    ctx.ob("C13.R4", "counter-once-per-iteration", inc_ok, "the returned iteration counter is incremented exactly once per loop iteration, after execution.run")


def r5_iteration_budget(ctx):
    """Every scheduler with an iteration budget: `iterations` is incremented exactly once on the path that starts an
    execution and `None` is returned under a test of iterations against the budget."""
    from engine.slicing import FlowSlicer, expand_closure_labels
    prog = ctx.prog
    S = "shuttle_schedulers::"
    n = 0
    for ty in ("random::RandomScheduler", "round_robin::RoundRobinScheduler", "urw::UrwRandomScheduler", "pct::PctScheduler", "dfs::DfsScheduler"):
        key = "<" + S + ty + " as shuttle_engine::scheduler::Scheduler>::new_execution"
        b = prog.get(key)
        if b is None:
            ctx.ob("C13.R5", "anchor|" + ty, False, "`%s` not found — rule not established" % key, nontrivial=False)
            continue
        n += 1
        IT = S + ty + ".iterations"
        inc = [s for s, st in b.assigns() if last_field(st["dst"]) == IT]
        somes = [s for s, st in b.assigns() if st["dst"]["l"] == 0 and st["rv"]["k"] == "aggr" and st["rv"].get("variant") == "Some"]
        nones = [s for s, st in b.assigns() if st["dst"]["l"] == 0 and st["rv"]["k"] == "aggr" and st["rv"].get("variant") == "None"]
        ok = len(inc) == 1 and bool(somes) and all(b.site_dominates(inc[0], s) for s in somes) and b.path_exists(inc[0], lambda x: x == inc[0]) is None
        ctx.ob("C13.R5", "counted-once|" + ty, ok, "`%s::new_execution` increments iterations exactly once before starting an execution" % ty, loc=b.loc())
        fs = FlowSlicer(b)
        okn = bool(nones) and any(("field:" + IT) in expand_closure_labels(prog, fs.guard_labels(s)) and
                                  ("field:" + S + ty + ".max_iterations") in expand_closure_labels(prog, fs.guard_labels(s)) for s in nones)
        ctx.ob("C13.R5", "stops-at-budget|" + ty, okn, "`%s::new_execution` returns None under a test of iterations against max_iterations" % ty, loc=b.loc())
    ctx.floor("C13.R5", "schedulers with an iteration budget", n, 5)


RULES = [("C13.R5", r5_iteration_budget), ("C13.R1", r1_bound_before_append), ("C13.R2", r2_both_kinds_count), ("C13.R3", r3_continue_after), ("C13.R4", r4_time_limit)]
