"""C20 — parking_lot permit table (K11), DashMap one-lock-per-operation (K1/K9), deterministic collections
provenance (K8), rand under control (K1+reach), lazy statics per execution (K1/K5)."""
import re

from engine import kinds
from engine.absint import Interp, Config, net_effects, fmt_effects, fmt_amt, fmt_sem, Overflow
from engine.facts import Site, Slicer, norm, operand_local

CRATES = {"shuttle_engine", "shuttle_std", "shuttle", "shuttle_parking_lot_impl", "shuttle_dashmap_impl",
          "deterministic_collections", "shuttle_rand_0_8_inner"}
EXPLANATION = (
    "Static decision of structural clauses of C20 on the MIR of the wrapper crates. (R1) for every lock_api raw method of "
    "the parking_lot RawRwLock/RawMutex the permit typestate interpreter enumerates all outcomes (return value, net permits "
    "per semaphore) and they must equal the table derived from the module's documented modelling (shared 1, exclusive "
    "MAX_READERS, upgradable = slot + 1 shared, upgrade = upgrade(1→MAX) then slot release, downgrade keeps one permit, failed "
    "try_* hold nothing incl. rollback of the upgradable slot); INIT constants use StrictlyFair and capacities MAX_READERS/1. "
    "(R2) every DashMap/DashSet operation takes the lock at most once on any path (check-then-act under two acquisitions is "
    "what breaks atomicity). (R3) the deterministic HashMap/HashSet newtypes are only ever built from "
    "with_hasher/with_capacity_and_hasher applied to the fixed DETERMINISTIC_RANDOM_STATE (or Clone). (R4) every RngCore impl "
    "of the rand wrapper reaches ExecutionState::next_u64 and nothing in the crate constructs an original rand generator. "
    "(R5) Lazy holds no value itself; its value lives in per-execution storage and is initialised under Once::call_once.")
NOT_DECIDED = ("upgrade/downgrade interleavings and overtaking, DashMap linearizability as a behaviour, equality of iteration "
               "order across processes as an observed fact (only its structural cause is decided)")
ASSUMPTIONS = ["BatchSemaphore semantics (C18)", "std HashMap iteration order is a function of hasher state and operation history"]

PL = "shuttle_parking_lot_impl::"
RW = PL + "raw_rwlock::RawRwLock"
MX = PL + "raw_mutex::RawMutex"
SEM = ("field", RW + ".sem")
UP = ("field", RW + ".upgradable_sem")
MSEM = ("field", MX + ".semaphore")


def _table(MAX):
    one, mx, mx1 = ("c", 1), ("c", MAX), ("c", MAX - 1)
    L = "lock_api::rwlock::"
    t = {
        "<%s as %sRawRwLock>::lock_shared" % (RW, L): [(None, {SEM: [("+", one)]})],
        "<%s as %sRawRwLock>::try_lock_shared" % (RW, L): [(1, {SEM: [("+", one)]}), (0, {})],
        "<%s as %sRawRwLock>::unlock_shared" % (RW, L): [(None, {SEM: [("-", one)]})],
        "<%s as %sRawRwLock>::lock_exclusive" % (RW, L): [(None, {SEM: [("+", mx)]})],
        "<%s as %sRawRwLock>::try_lock_exclusive" % (RW, L): [(1, {SEM: [("+", mx)]}), (0, {})],
        "<%s as %sRawRwLock>::unlock_exclusive" % (RW, L): [(None, {SEM: [("-", mx)]})],
        "<%s as %sRawRwLockFair>::unlock_shared_fair" % (RW, L): [(None, {SEM: [("-", one)]})],
        "<%s as %sRawRwLockFair>::unlock_exclusive_fair" % (RW, L): [(None, {SEM: [("-", mx)]})],
        "<%s as %sRawRwLockDowngrade>::downgrade" % (RW, L): [(None, {SEM: [("-", mx1)]})],
        "<%s as %sRawRwLockUpgrade>::lock_upgradable" % (RW, L): [(None, {UP: [("+", one)], SEM: [("+", one)]})],
        "<%s as %sRawRwLockUpgrade>::try_lock_upgradable" % (RW, L): [(1, {UP: [("+", one)], SEM: [("+", one)]}), (0, {})],
        "<%s as %sRawRwLockUpgrade>::unlock_upgradable" % (RW, L): [(None, {SEM: [("-", one)], UP: [("-", one)]})],
        "<%s as %sRawRwLockUpgrade>::upgrade" % (RW, L): [(None, {SEM: [("+", ("upgrade", one, mx))], UP: [("-", one)]})],
        "<%s as %sRawRwLockUpgrade>::try_upgrade" % (RW, L): [(1, {SEM: [("+", mx1)], UP: [("-", one)]}), (0, {})],
        "<%s as %sRawRwLockUpgradeDowngrade>::downgrade_upgradable" % (RW, L): [(None, {UP: [("-", one)]})],
        "<%s as %sRawRwLockUpgradeDowngrade>::downgrade_to_upgradable" % (RW, L): [(None, {UP: [("+", one)], SEM: [("-", mx1)]})],
        "<%s as %sRawRwLockUpgradeFair>::unlock_upgradable_fair" % (RW, L): [(None, {SEM: [("-", one)], UP: [("-", one)]})],
        "<%s as lock_api::mutex::RawMutex>::lock" % MX: [(None, {MSEM: [("+", one)]})],
        "<%s as lock_api::mutex::RawMutex>::try_lock" % MX: [(1, {MSEM: [("+", one)]}), (0, {})],
        "<%s as lock_api::mutex::RawMutex>::unlock" % MX: [(None, {MSEM: [("-", one)]})],
        "<%s as lock_api::mutex::RawMutexFair>::unlock_fair" % MX: [(None, {MSEM: [("-", one)]})],
    }
    return t


def _canon(ret, net):
    return (ret, tuple(sorted((fmt_sem(k), tuple(sorted((s, fmt_amt(a)) for s, a in v))) for k, v in net.items())))


def r1_parking_lot(ctx):
    prog = ctx.prog
    it = Interp(prog, Config())
    # INIT constants
    caps = {}
    for key, want in (("<%s as lock_api::rwlock::RawRwLock>::INIT" % RW, 2), ("<%s as lock_api::mutex::RawMutex>::INIT" % MX, 1)):
        b = ctx.body(key, "C20.R1")
        calls = [(s, t) for s, t in b.calls() if any(c.startswith("shuttle_engine::future::batch_semaphore::BatchSemaphore::") and "new" in c.rsplit("::", 1)[1]
                                                     for c in b.callees_of_call(t, passed=False))]
        ctx.floor("C20.R1", "semaphore constructors in " + key, len(calls), want)
        for i, (s, t) in enumerate(calls):
            cap = kinds.operand_const(b, t["args"][0])
            fair = kinds.operand_enum_variant(b, t["args"][1])
            caps.setdefault(key, []).append(cap)
            ctx.ob("C20.R1", "init|%s|#%d" % (key, i), fair == "StrictlyFair" and cap is not None,
                   "`%s` semaphore #%d: capacity %s, fairness %s (StrictlyFair required: FIFO hand-off is what makes fair unlock = unlock)" % (key, i, cap, fair), loc=b.loc(s))
    rwcaps = caps.get("<%s as lock_api::rwlock::RawRwLock>::INIT" % RW, [])
    MAX = max([c for c in rwcaps if c is not None], default=None)
    ok = MAX is not None and sorted(c for c in rwcaps if c is not None) == [1, MAX] and MAX > 2
    ctx.ob("C20.R1", "init|capacities", ok, "RawRwLock::INIT capacities are {1 (upgradable slot), MAX_READERS=%s}; RawMutex::INIT capacity %s" %
           (MAX, caps.get("<%s as lock_api::mutex::RawMutex>::INIT" % MX)))
    mcap = caps.get("<%s as lock_api::mutex::RawMutex>::INIT" % MX, [None])
    ctx.ob("C20.R1", "init|mutex-capacity", mcap == [1], "RawMutex::INIT capacity is 1: %s" % mcap)
    if MAX is None:
        return
    table = _table(MAX)
    for f, expected in sorted(table.items()):
        b = ctx.body(f, "C20.R1")
        try:
            outs = it.summary(f)
        except Overflow as e:
            ctx.ob("C20.R1", "outcomes|" + f, False, "abstract interpretation did not converge: %s" % e, loc=b.loc())
            continue
        got = set()
        closed_n = 0
        for o in outs:
            if any(ev[0] == "acq" and ev[3] in ("blocking", "async", "upgrade") and ev[4] == "fail" for ev in o["effects"]):
                closed_n += 1   # closed semaphore: only observable while unwinding (documented in the source)
                continue
            r = o["ret"]
            rv = r[1] if (r and r[0] == "c") else None
            got.add(_canon(rv, net_effects(o["effects"])))
        want = set(_canon(r, n) for r, n in expected)
        ok = got == want
        ctx.ob("C20.R1", "table|" + f, ok,
               ("`%s`: outcomes %s match the lock_api permit table" % (f.split("::")[-1], sorted(got))) if ok else
               ("`%s`: outcomes %s differ from the permit table %s (extra: %s, missing: %s)" %
                (f, sorted(got), sorted(want), sorted(got - want), sorted(want - got))), loc=b.loc(),
               detail={"closed_outcomes_ignored": closed_n})
        # order inside lock_upgradable: slot first
        if f.endswith("::lock_upgradable"):
            for o in outs:
                acqs = [ev for ev in o["effects"] if ev[0] == "acq"]
                if len(acqs) == 2:
                    ctx.ob("C20.R1", "order|lock_upgradable", acqs[0][1] == UP,
                           "lock_upgradable takes the upgradable slot before the shared permit", loc=b.loc())
                    break
    ctx.notes.append({"absint": it.stats})


def r2_dashmap(ctx):
    prog = ctx.prog
    LOCKS = {"shuttle_std::sync::rwlock::RwLock::%s" % m for m in ("read", "write", "try_read", "try_write")}
    locking = kinds.may_reach_set(prog, LOCKS)
    guard_drops = {"<shuttle_std::sync::rwlock::RwLockReadGuard as core::ops::drop::Drop>::drop",
                   "<shuttle_std::sync::rwlock::RwLockWriteGuard as core::ops::drop::Drop>::drop"}
    n = 0
    for b in sorted(prog.all_bodies({"shuttle_dashmap_impl"}), key=lambda x: x.nkey):
        if b.kind not in ("Fn", "AssocFn"):
            continue
        sites = [s for s, t in b.calls() if b.callees_of_call(t, passed=False) & locking]
        if not sites:
            continue
        n += 1
        ss = set(sites)
        two = None
        for s in sites:
            w = b.path_exists(s, lambda x: x in ss)
            if w is not None:
                two = (s, w)
                break
        ctx.ob("C20.R2", "one-lock|" + b.nkey, two is None,
               ("`%s` takes the map lock at most once on every path" % b.nkey) if two is None else
               ("`%s` takes the map lock twice on one path (%s then %s): the operation is not atomic" % (b.nkey, b.loc(two[0]), b.loc(two[1]))),
               loc=b.loc(sites[0]))
    ctx.floor("C20.R2", "DashMap/DashSet functions that take the lock", n, 36)


DC = "deterministic_collections::"


def r3_collections(ctx):
    prog = ctx.prog
    STATE = DC + "DETERMINISTIC_RANDOM_STATE"
    n = 0
    for adt in (DC + "HashMap", DC + "HashSet"):
        cons = prog.adt_constructions(adt, crates={"deterministic_collections"})
        ctx.floor("C20.R3", "construction sites of " + adt, len(cons), 2)
        for b, s, st in cons:
            n += 1
            sl = Slicer(b, alias_defs=False)
            labels, _ = sl.slice_operand(st["rv"]["ops"][0])
            from_fixed = any(l.startswith("call:std::collections::hash::") and l.endswith(("::with_hasher", "::with_capacity_and_hasher")) for l in labels) \
                and ("item:" + STATE) in labels
            is_clone = b.nkey.endswith("core::clone::Clone>::clone") and any("clone" in l for l in labels)
            ok = from_fixed or is_clone
            ctx.ob("C20.R3", "provenance|%s|%s" % (adt.split("::")[-1], b.nkey), ok,
                   ("`%s` builds %s from %s" % (b.nkey, adt.split("::")[-1], "with_hasher(DETERMINISTIC_RANDOM_STATE)" if from_fixed else "a clone of a wrapped value")) if ok else
                   ("`%s` wraps a std collection that was NOT built from the fixed hasher state (sources: %s) — its iteration order depends on RandomState::default()" %
                    (b.nkey, sorted(l for l in labels if l.startswith("call:"))[:4])), loc=b.loc(s))
    # the state itself is a constant
    it = prog.items.get(STATE)
    ctx.ob("C20.R3", "state-is-const", it is not None and it["kind"].startswith("Const"),
           "DETERMINISTIC_RANDOM_STATE is a `const` item of type %s" % (it["ty"] if it else "?"), nontrivial=False)
    # no other function of the crate calls a constructor that draws a random state
    bad = []
    for b in prog.all_bodies({"deterministic_collections"}):
        for s, t in b.calls():
            for c in b.callees_of_call(t, passed=False):
                if re.search(r"RandomState::new$|hash::random::RandomState as core::default::Default>::default$|std::collections::hash::(map::HashMap|set::HashSet)::(new|with_capacity)$", c):
                    bad.append((b, s, c))
    ctx.ob("C20.R3", "no-random-state", not bad, "no function of the crate creates a RandomState or a default-state std collection" if not bad else
           "`%s` calls `%s`" % (bad[0][0].nkey, bad[0][2]), loc=bad[0][0].loc(bad[0][1]) if bad else None)


def r4_rand(ctx):
    prog = ctx.prog
    NEXT = "shuttle_engine::runtime::execution::ExecutionState::next_u64"
    impls = [im for im in prog.impls if im["crate"] in ("shuttle_rand_0_8_inner", "shuttle") and im.get("trait") == "rand_core::RngCore"]
    ctx.floor("C20.R4", "RngCore impls in shuttle::rand and the rand wrapper", len(impls), 2)
    for im in impls:
        for m in im["items"]:
            if m["kind"] != "AssocFn":
                continue
            k = norm(m["key"])
            b = prog.get(k)
            if b is None:
                continue
            reach = prog.may_reach([k])
            # table: rand_core's generic helper draws through next_u64 of the generator it is handed (here: self)
            via_helper = "rand_core::impls::fill_bytes_via_next" in reach
            ctx.ob("C20.R4", "reaches-next_u64|" + k, NEXT in reach or via_helper,
                   "`%s` draws from ExecutionState::next_u64%s" % (k, " (through rand_core::impls::fill_bytes_via_next(self))" if NEXT not in reach else ""), loc=b.loc())
    # who calls next_u64
    cal = kinds.callers(prog, NEXT)
    kinds.check_who_may(ctx, "C20.R4", "caller of ExecutionState::next_u64", {kinds.root_fn(prog, k) for k in cal},
                        {"<shuttle::rand::rngs::ThreadRng as rand_core::RngCore>::next_u64"})
    deny = re.compile(r"^(rand::rngs::|rand::thread_rng|rand::random|rand_core::SeedableRng::(from_entropy|seed_from_u64|from_rng)|rand_core::OsRng|getrandom::)")
    bad = []
    n = 0
    for b in prog.all_bodies({"shuttle_rand_0_8_inner"}):
        for s, t in b.calls():
            n += 1
            for c in b.callees_of_call(t):
                if deny.search(c):
                    bad.append((b, s, c))
    ctx.ob("C20.R4", "no-original-rng", not bad, ("none of the %d call sites of the rand wrapper constructs an original rand generator" % n) if not bad else
           "`%s` calls `%s`" % (bad[0][0].nkey, bad[0][2]), loc=bad[0][0].loc(bad[0][1]) if bad else None)


def r5_lazy(ctx):
    prog = ctx.prog
    LZ = "shuttle::lazy_static::Lazy"
    a = prog.adts.get(LZ)
    if a is None:
        ctx.ob("C20.R5", "anchor|" + LZ, False, "type `%s` not found — rule not established" % LZ, nontrivial=False)
        return
    flds = a["variants"][0]["fields"]
    holds_value = [f for f in flds if re.search(r"\bT\b", f["ty"]) and "PhantomData" not in f["ty"] and not f["ty"].startswith("fn(")]
    ctx.ob("C20.R5", "no-value-cell", not holds_value,
           "Lazy has no field that can hold the value (fields: %s): the value lives in per-execution storage only" % [(f["name"], f["ty"]) for f in flds])
    g = ctx.body(LZ + "::get", "C20.R5")
    GET = "shuttle_engine::runtime::execution::ExecutionState::get_storage"
    INIT = "shuttle_engine::runtime::execution::ExecutionState::init_storage"
    ONCE = "shuttle_std::sync::once::Once::call_once"
    bodies = prog.with_closures(g)
    init_sites = [(b, s) for b in prog.all_bodies({"shuttle"}) if (b.nkey == g.nkey or (b.parent == g.nkey)) for s, t in b.calls() if INIT in b.callees_of_call(t, passed=False)]
    ctx.floor("C20.R5", "init_storage calls in Lazy::get", len(init_sites), 1)
    # the closure handed to Once::call_once (transitively) contains the init_storage call
    once_calls = [(s, t) for s, t in g.calls() if ONCE in g.callees_of_call(t, passed=False)]
    ok = False
    for s, t in once_calls:
        for c in g.passed_callables(t):
            if INIT in prog.may_reach([c]):
                ok = True
    ctx.ob("C20.R5", "init-under-once", bool(once_calls) and ok and all(b.nkey != g.nkey for b, s in init_sites),
           "the value is stored (init_storage) only inside the closure run by Once::call_once", loc=g.loc())
    reach = prog.may_reach([g.nkey])
    ctx.ob("C20.R5", "reads-storage", GET in reach, "Lazy::get reads the value from ExecutionState storage", loc=g.loc())


RULES = [("C20.R1", r1_parking_lot), ("C20.R2", r2_dashmap), ("C20.R3", r3_collections), ("C20.R4", r4_rand), ("C20.R5", r5_lazy)]
