"""C16 — schedule strings: decoder totality (K7), writer/reader agreement (K6), whitespace (K2)."""
import re

from engine.facts import Slicer, Site, norm, operand_local
from engine import kinds, intervals
from engine.slicing import FlowSlicer

USIZE_BITS = 64          # the analysed target (x86_64); the writer's upper bound is usize::BITS

CRATES = {"shuttle_engine", "shuttle_schedulers"}
EXPLANATION = (
    "Static decision of the structural clauses of C16 on the MIR of /repo's current tree: "
    "(R1) decoder totality — from `deserialize_schedule` through every in-crate callee and closure there is no "
    "reachable Assert terminator that is not constant-true (bounds/overflow/division), no call of the panic family "
    "and no call of a deny-listed panicking API (Index::index, unwrap/expect, with_capacity from an untrusted length, "
    "BitSlice::from_slice, BitField::load without a dominating bit-width validation); "
    "(R2) writer and reader agree on the header: same magic const item, three varints written from "
    "(bit width, length, seed) and read into (bit width, length, seed) in the same order, and the step tag bit has "
    "the same polarity on both sides; (R3) the hex decoder only sees the whitespace-filtered string. "
    "Nothing is executed; the quantifier over all input strings is discharged over the paths of the decoder.")
NOT_DECIDED = "value-level identity decode(encode(s)) == s for all schedules (bit-width arithmetic); behaviour of hex/bitvec internals"
ASSUMPTIONS = [
    "external callees on the allow-list (hex::decode, slice/BitSlice get/first/len, Vec::new/push, checked_*, iterator adaptors, Read::read_exact on &[u8]) do not panic",
    "external callees on neither list are reported as unclassified and treated as non-panicking",
    "arithmetic overflow asserts inside read_u64_varint are unreachable (offset ∈ {7..56} by loop structure) — table entry",
]

ROOT = "shuttle_engine::scheduler::serialization::deserialize_schedule"
WRITER = "shuttle_engine::scheduler::serialization::serialize_schedule"
READ_VARINT = "<R as shuttle_engine::scheduler::serialization::varint::ReadVarInt>::read_u64_varint"
WRITE_VARINT = "<R as shuttle_engine::scheduler::serialization::varint::WriteVarInt>::write_u64_varint"

# function -> (assert kind, max count, reason)
ASSERT_ALLOW = {
    READ_VARINT: ("Overflow", 5,
                  "offset takes the values 7,14,..,56 inside the loop and the loop leaves at 63, so every shift is < 64 "
                  "and every addition only sets bits above those already set"),
}


def r1_totality(ctx):
    prog = ctx.prog
    root = ctx.body(ROOT, "C16.R1")
    res = kinds.totality(prog, ROOT, crate="shuttle_engine", assert_allow=ASSERT_ALLOW,
                         guarded_load=guarded_load)
    ctx.floor("C16.R1", "functions reachable from deserialize_schedule", len(res["functions"]), 4)
    for f in sorted(res["functions"]):
        bad = [v for v in res["violations"] if v["fn"] == f]
        ctx.ob("C16.R1", "total|" + f, not bad,
               "no panicking construct on any normal path of `%s`" % f if not bad else
               "`%s` contains %d panicking construct(s): %s" % (f, len(bad), "; ".join(v["what"] for v in bad)),
               loc=bad[0]["loc"] if bad else prog.get(f).loc() if prog.get(f) else None,
               detail={"constructs": bad, "asserts_const_true": res["const_true"].get(f, 0),
                       "asserts_tabled": res["tabled"].get(f, 0)})
        # individual violation keys so that a known finding can name one construct
    ctx.notes.append({"unclassified_external_callees": sorted(res["unclassified"])})
    ctx.ob("C16.R1", "callsites-classified", True,
           "%d call sites classified (%d in-crate, %d allow-listed external, %d unclassified external: %s)" %
           (res["n_calls"], res["n_incrate"], res["n_allowed"], len(res["unclassified"]), sorted(res["unclassified"])),
           nontrivial=False)
    # the caller keeps its explicit rejection
    nb = prog.get("shuttle_schedulers::replay::ReplayScheduler::new_from_encoded")
    if nb is not None:
        calls = [t for s, t in nb.calls() if ROOT in nb.callees_of_call(t)]
        ctx.ob("C16.R1", "caller|new_from_encoded", bool(calls),
               "ReplayScheduler::new_from_encoded decodes through deserialize_schedule", loc=nb.loc())


def _root_local(sl, op, depth=0):
    """Follow plain `use`/cast copies of a whole local back to its origin."""
    l = operand_local(op)
    if l is None or op["pl"].get("p"):
        return l
    defs = [st for (s, st) in sl.defs.get(l, []) if st.get("k") == "assign"]
    if len(defs) == 1 and defs[0]["rv"]["k"] in ("use", "cast") and depth < 6:
        src = defs[0]["rv"]["ops"][0]
        if src.get("k") in ("copy", "move") and not src["pl"].get("p"):
            return _root_local(sl, src, depth + 1)
    return l


def guarded_load(prog, body, site, term):
    """BitField::load is accepted iff it is dominated by a branch on a comparison `L <op> const` where L is
    an integer local that also feeds (value flow) the bit range the load is applied to."""
    sl = Slicer(body, alias_defs=False)
    recv = term["args"][0] if term.get("args") else None
    if recv is None:
        return False
    _, recv_locals = sl.slice_operand(recv)
    # preferred: the width that feeds the loaded bit range is confined to [1, usize::BITS] by the dominating branches, whatever their
    # spelling (comparisons, `(a..b).contains(&w)`, `(a..=b).contains(&w)`)
    for l in sorted(recv_locals):
        if body.local_ty(l) in ("usize", "u64", "u32") and body.local_name(l):
            iv = intervals.accepted_interval(prog, body, l, site)
            if iv is not None and iv[0] is not None and iv[1] is not None and iv[0] >= 1 and iv[1] <= USIZE_BITS:
                return True
    for b in body.blocks:
        t = b["term"]
        if t["k"] != "switch" or b.get("cleanup"):
            continue
        sw = body.term_site(b["id"])
        if not body.site_dominates(sw, site):
            continue
        dl = operand_local(t["discr"])
        for (s, st) in sl.defs.get(dl, []):
            if st.get("k") != "assign" or st["rv"]["k"] != "binop":
                continue
            if st["rv"].get("op") not in ("Eq", "Ne", "Lt", "Le", "Gt", "Ge"):
                continue
            ops = st["rv"]["ops"]
            consts = [o for o in ops if o.get("k") == "const"]
            vars_ = [o for o in ops if o.get("k") in ("copy", "move")]
            if not consts or not vars_:
                continue
            root = _root_local(sl, vars_[0])
            if root in recv_locals and body.local_ty(root) in ("usize", "u64", "u32"):
                return True
    return False


def _direct_calls(body, nkey):
    return [(s, t) for s, t in body.calls() if nkey in body.callees_of_call(t, passed=False)]


def r2_agreement(ctx):
    prog = ctx.prog
    rd = ctx.body(ROOT, "C16.R2")
    wr = ctx.body(WRITER, "C16.R2")
    MAGIC = "shuttle_engine::scheduler::serialization::SCHEDULE_MAGIC_V2"

    def uses_item(body, item):
        out = []
        for s in body.sites():
            st = body.at(s)
            for op in body.operands_of(st):
                if op.get("k") == "const" and op.get("item") and norm(op["item"]) == item:
                    out.append(s)
        return out

    wu = uses_item(wr, MAGIC)
    ru = uses_item(rd, MAGIC)
    ctx.ob("C16.R2", "magic-shared", bool(wu) and bool(ru),
           "writer and reader both use the const item SCHEDULE_MAGIC_V2 (writer sites %d, reader sites %d)" % (len(wu), len(ru)),
           loc=rd.loc(ru[0]) if ru else rd.loc())
    # reader compares it with the first byte and returns None on mismatch
    ok = False
    for s in ru:
        st = rd.at(s)
        if st.get("k") == "assign" and st["rv"]["k"] == "binop" and st["rv"]["op"] in ("Ne", "Eq"):
            ok = True
    ctx.ob("C16.R2", "magic-compared", ok, "reader compares the version byte against the magic with ==/!=",
           loc=rd.loc(ru[0]) if ru else rd.loc())

    # --- writer order
    wcalls = sorted(_direct_calls(wr, WRITE_VARINT) + _direct_calls(wr, "shuttle_engine::scheduler::serialization::varint::WriteVarInt::write_u64_varint"),
                    key=lambda x: (x[0].bb, x[0].idx))
    wcalls = list({(s.bb, s.idx): (s, t) for s, t in wcalls}.values())
    if not ctx.floor("C16.R2", "write_u64_varint calls in serialize_schedule", len(wcalls), 3):
        return
    # order by dominance
    wcalls.sort(key=lambda x: len(wr.dom.get(x[0].bb, ())))
    wsl = Slicer(wr, alias_defs=False)
    wroles = []
    for s, t in wcalls:
        labels, locs = wsl.slice_operand(t["args"][1])
        names = {wr.local_name(l) for l in locs if wr.local_name(l)}
        if "field:shuttle_engine::scheduler::Schedule.seed" in labels:
            wroles.append("seed")
        elif "call:shuttle_engine::scheduler::Schedule::len" in labels:
            wroles.append("len")
        elif "task_id_bits" in names or "call:core::num::leading_zeros" in labels or any("leading_zeros" in l for l in labels):
            wroles.append("bits")
        else:
            wroles.append("?")
    ctx.ob("C16.R2", "writer-order", wroles == ["bits", "len", "seed"],
           "writer emits varints in the order %s (expected bits,len,seed)" % ",".join(wroles), loc=wr.loc(wcalls[0][0]))

    # --- reader order
    rcalls = _direct_calls(rd, READ_VARINT) + _direct_calls(rd, "shuttle_engine::scheduler::serialization::varint::ReadVarInt::read_u64_varint")
    rcalls = list({(s.bb, s.idx): (s, t) for s, t in rcalls}.values())
    if not ctx.floor("C16.R2", "read_u64_varint calls in deserialize_schedule", len(rcalls), 3):
        return
    rcalls.sort(key=lambda x: len(rd.dom.get(x[0].bb, ())))
    rsl = Slicer(rd, alias_defs=False)

    def which_reads(op):
        rsl.slice_operand(op)
        return [i for i, (s, t) in enumerate(rcalls) if s in rsl.sites]

    # seed: the `seed` field of the Schedule aggregate
    aggs = [(s, st) for s, st in rd.assigns() if st["rv"]["k"] == "aggr" and st["rv"].get("ak") == "adt"
            and norm(st["rv"]["adt"]) == "shuttle_engine::scheduler::Schedule"]
    if not ctx.floor("C16.R2", "Schedule aggregate in reader", len(aggs), 1):
        return
    s, st = aggs[0]
    fi = st["rv"]["fields"].index("seed")
    src = which_reads(st["rv"]["ops"][fi])
    ctx.ob("C16.R2", "reader-seed", src == [2], "Schedule.seed is the value of varint read #%s (expected #3)" %
           ",".join(str(i + 1) for i in src), loc=rd.loc(s))
    # length: the loop bound compared with steps.len()
    len_ok = []
    for s2, st2 in rd.assigns():
        rv = st2["rv"]
        if rv["k"] == "binop" and rv["op"] in ("Lt", "Le", "Ge", "Gt", "Ne", "Eq"):
            labs = [rsl.slice_operand(o)[0] for o in rv["ops"]]
            if any("call:alloc::vec::Vec::len" in l for l in labs):
                for o in rv["ops"]:
                    len_ok.append(which_reads(o))
    len_src = sorted(set(tuple(x) for x in len_ok if x))
    ctx.ob("C16.R2", "reader-len", len_src == [(1,)], "loop bound compared with steps.len() comes from varint read #%s (expected #2)" %
           len_src, loc=rd.loc())
    # width: flows into the receiver of BitField::load (range end)
    loads = [(s3, t3) for s3, t3 in rd.calls() if "bitvec::field::BitField::load" in rd.callees_of_call(t3)]
    if ctx.floor("C16.R2", "BitField::load calls in reader", len(loads), 1):
        srcw = which_reads(loads[0][1]["args"][0])
        ctx.ob("C16.R2", "reader-bits", srcw == [0], "the width of the loaded bit range comes from varint read #%s (expected #1)" %
               ",".join(str(i + 1) for i in srcw), loc=rd.loc(loads[0][0]))

    # --- tag polarity
    STEP = "shuttle_engine::scheduler::ScheduleStep"
    adt = prog.adts.get(STEP)
    variants = [v["name"] for v in adt["variants"]] if adt else []

    def first_on_edge(body, start_bb, is_hit):
        w = body.path_exists(Site(start_bb, 0), is_hit, start_inclusive=True)
        return w

    # writer: switch over the discriminant of a ScheduleStep
    wmap = {}
    for b in wr.blocks:
        t = b["term"]
        if t["k"] != "switch" or b.get("cleanup"):
            continue
        dl = operand_local(t["discr"])
        defs = [st for (s, st) in wsl.defs.get(dl, []) if st.get("k") == "assign" and st["rv"]["k"] == "discr"]
        if not defs:
            continue
        pl = defs[0]["rv"]["pl"]
        base_ty = wr.local_ty(pl["l"])
        pty = base_ty.lstrip("&").replace("mut ", "").strip()
        if norm(pty) != STEP:
            continue
        edges = [(v, tb) for v, tb in t["arms"]]
        for v, tb in edges:
            def is_set(s, wr=wr):
                if not wr.is_term(s):
                    return False
                tt = wr.term(s.bb)
                return tt["k"] == "call" and any(c.endswith("::set") and "bitvec" in c for c in wr.callees_of_call(tt, passed=False))
            w = first_on_edge(wr, tb, is_set)
            if w is not None:
                tt = wr.term(w.bb)
                consts = [a.get("ev") for a in tt["args"] if a.get("k") == "const" and a.get("ty") == "bool"]
                if consts and v < len(variants):
                    wmap.setdefault(variants[v], set()).add(bool(consts[0]))
    # reader: switch on a bool that derives from BitSlice::get
    rmap = {}
    for b in rd.blocks:
        t = b["term"]
        if t["k"] != "switch" or b.get("cleanup"):
            continue
        labels, _ = rsl.slice_operand(t["discr"])
        if not any(l.startswith("call:bitvec::slice::api::get") or l == "call:bitvec::slice::BitSlice::get" for l in labels):
            continue
        if not any("BitRef" in l and "deref" in l.lower() for l in labels):
            continue
        for val, tb in [(a[0], a[1]) for a in t["arms"]] + [("else", t["otherwise"])]:
            def is_step(s, rd=rd):
                st = rd.at(s)
                return st.get("k") == "assign" and st["rv"]["k"] == "aggr" and st["rv"].get("ak") == "adt" and norm(st["rv"]["adt"]) == STEP
            w = first_on_edge(rd, tb, is_step)
            if w is not None:
                bit = False if val == 0 else True
                rmap.setdefault(rd.at(w)["rv"]["variant"], set()).add(bit)
    ok = bool(wmap) and bool(rmap) and all(len(v) == 1 for v in wmap.values()) and wmap == rmap
    ctx.ob("C16.R2", "tag-polarity", ok,
           "step tag bit: writer %s, reader %s" % ({k: sorted(v) for k, v in wmap.items()}, {k: sorted(v) for k, v in rmap.items()}),
           loc=rd.loc())


def r3_whitespace(ctx):
    prog = ctx.prog
    rd = ctx.body(ROOT, "C16.R3")
    dec = [(s, t) for s, t in rd.calls() if "hex::decode" in rd.callees_of_call(t, passed=False)]
    if not ctx.floor("C16.R3", "hex::decode call", len(dec), 1):
        return
    sl = Slicer(rd, alias_defs=False)
    labels, _ = sl.slice_operand(dec[0][1]["args"][0])
    filt = [l for l in labels if l.startswith("call:") and "::{closure#" in l]
    has_filter = "call:core::iter::traits::iterator::Iterator::filter" in labels
    ok_closure = False
    for l in filt:
        cb = prog.get(l[5:])
        if cb is None:
            continue
        ws = [s for s, t in cb.calls() if any("is_whitespace" in c for c in cb.callees_of_call(t))]
        nots = [s for s, st in cb.assigns() if st["rv"]["k"] == "unop" and st["rv"]["op"] == "Not"]
        if ws and nots:
            ok_closure = True
    ctx.ob("C16.R3", "filter-before-decode", has_filter and ok_closure,
           "the argument of hex::decode is collected from a `filter(!is_whitespace)` of the input (filter=%s, closure negates is_whitespace=%s)" %
           (has_filter, ok_closure), loc=rd.loc(dec[0][0]))
    # every path to the decode passes through the collect (dominance)
    coll = [s for s, t in rd.calls() if "core::iter::traits::iterator::Iterator::collect" in rd.callees_of_call(t, passed=False)]
    ctx.ob("C16.R3", "collect-dominates-decode", any(rd.site_dominates(c, dec[0][0]) for c in coll),
           "the filtering collect dominates hex::decode", loc=rd.loc(dec[0][0]))


class Lin:
    """Symbolic evaluation of usize expressions to linear forms over the named locals `offset` and `task_id_bits`."""

    def __init__(self, body):
        self.b = body
        self.defs = {}
        for s in body.sites():
            st = body.at(s)
            if st.get("k") in ("assign", "call") and "dst" in st and not st["dst"].get("p"):
                self.defs.setdefault(st["dst"]["l"], []).append(st)

    @staticmethod
    def add(a, b):
        if a is None or b is None:
            return None
        out = dict(a)
        for k, v in b.items():
            out[k] = out.get(k, 0) + v
        return out

    def op(self, o, depth=0):
        if depth > 25:
            return None
        if o.get("k") == "const":
            return {"const": o["ev"]} if "ev" in o else None
        pl = o["pl"]
        return self.place(pl, depth)

    def place(self, pl, depth):
        l = pl["l"]
        name = self.b.local_name(l)
        if name == "offset" and not pl.get("p"):
            return {"offset": 1}
        if name == "task_id_bits" and not pl.get("p"):
            return {"bits": 1}
        ds = self.defs.get(l, [])
        if len(ds) != 1:
            return None
        st = ds[0]
        if st.get("k") == "call":
            names = self.b.callees_of_call(st, passed=False)
            if any(n.endswith("::checked_add") or n.endswith("::wrapping_add") or n.endswith("::saturating_add") for n in names):
                return self.add(self.op(st["args"][0], depth + 1), self.op(st["args"][1], depth + 1))
            if any(n.endswith("Try::branch") or n.endswith("Try>::branch") for n in names):
                return self.op(st["args"][0], depth + 1)
            return None
        rv = st["rv"]
        if rv["k"] in ("use", "cast"):
            return self.op(rv["ops"][0], depth + 1)
        if rv["k"] == "binop" and rv.get("op") in ("Add", "AddWithOverflow", "AddUnchecked"):
            return self.add(self.op(rv["ops"][0], depth + 1), self.op(rv["ops"][1], depth + 1))
        return None


def _canon(f):
    return tuple(sorted((k, v) for k, v in (f or {}).items() if v)) if f is not None else None


def r4_layout(ctx):
    """Writer and reader advance the bit cursor by the same amount per step kind and address the same bit range for a task id."""
    prog = ctx.prog
    rd = ctx.body(ROOT, "C16.R4")
    wr = ctx.body(WRITER, "C16.R4")
    STEP = "shuttle_engine::scheduler::ScheduleStep"

    def strides(body, arm_of):
        lin = Lin(body)
        out = {}
        off = [i for i, l in enumerate(body.locals) if l.get("name") == "offset"]
        if not off:
            return out
        for s, st in body.assigns():
            if st["dst"]["l"] != off[0] or st["dst"].get("p"):
                continue
            f = lin.op(st["rv"]["ops"][0]) if st["rv"]["k"] == "use" else None
            if f == {"const": 0}:
                continue          # initialisation
            arm = arm_of(body, s)
            out.setdefault(arm, set()).add(_canon(f))
        return out

    def reader_arm(body, s):
        best = None
        for x, st in body.assigns():
            if st["rv"]["k"] == "aggr" and st["rv"].get("ak") == "adt" and norm(st["rv"]["adt"]) == STEP and body.site_dominates(x, s):
                if best is None or body.site_dominates(best[0], x):
                    best = (x, st["rv"]["variant"])
        return best[1] if best else "?"

    def writer_arm(body, s):
        best = None
        for x, t in body.calls():
            if any(c.endswith("BitSlice::set") for c in body.callees_of_call(t, passed=False)) and body.site_dominates(x, s):
                v = [a.get("ev") for a in t["args"] if a.get("k") == "const" and a.get("ty") == "bool"]
                if v and (best is None or body.site_dominates(best[0], x)):
                    best = (x, "Random" if v[0] else "Task")
        return best[1] if best else "?"

    rs = strides(rd, reader_arm)
    ws = strides(wr, writer_arm)
    want = {"Task": {_canon({"offset": 1, "bits": 1, "const": 1})}, "Random": {_canon({"offset": 1, "const": 1})}}
    ctx.ob("C16.R4", "reader-stride", rs == want, "reader advances the bit cursor by 1+bits after a task step and by 1 after a random step: %s" % {k: sorted(v) for k, v in rs.items()}, loc=rd.loc())
    ctx.ob("C16.R4", "writer-stride", ws == want, "writer advances the bit cursor by 1+bits after a task step and by 1 after a random step: %s" % {k: sorted(v) for k, v in ws.items()}, loc=wr.loc())
    ctx.ob("C16.R4", "strides-agree", rs == ws and bool(rs), "writer and reader use the same stride per step kind", loc=rd.loc())

    def ranges(body):
        lin = Lin(body)
        out = set()
        for s, st in body.assigns():
            rv = st["rv"]
            if rv["k"] == "aggr" and rv.get("ak") == "adt" and norm(rv["adt"]) == "core::ops::range::Range":
                out.add((_canon(lin.op(rv["ops"][0])), _canon(lin.op(rv["ops"][1]))))
        return out
    # width agreement: the writer uses max(usize::BITS - leading_zeros(max id), 1) bits, i.e. any width in [1, usize::BITS]; the reader must
    # accept exactly those (narrower: a schedule the writer produced is rejected; wider: the load could panic, R1)
    wl = wr.locals_named("task_id_bits")
    wlabs = set()
    for l in wl:
        for st in Lin(wr).defs.get(l, []):
            for o in (st.get("args") or st.get("rv", {}).get("ops") or []):
                wlabs |= FlowSlicer(wr, control=False).operand_labels(o, [s for s in wr.sites() if wr.at(s) is st][0])
            if st.get("k") == "call":
                wlabs |= {"call:" + c for c in wr.callees_of_call(st, passed=False)}
    w_ok = any(l.endswith("leading_zeros") for l in wlabs) and any(l.endswith("::max") for l in wlabs) and "const:1" in wlabs
    ctx.ob("C16.R4", "writer-width-is-clamped-bit-length", w_ok, "the writer's id width is max(bit length of the largest id, 1): a value in [1, usize::BITS]", loc=wr.loc())
    rl = rd.locals_named("task_id_bits")
    loads = [s for s, t in rd.calls() if any("BitField::load" in c for c in rd.callees_of_call(t, passed=False))]
    iv = intervals.accepted_interval(prog, rd, rl[0], loads[0]) if rl and loads else None
    ok_iv = iv is not None and iv[0] is not None and iv[1] is not None and iv[0] <= 1 and iv[1] >= USIZE_BITS
    ctx.ob("C16.R4", "reader-accepts-every-writer-width", ok_iv,
           "the reader accepts every id width the writer can emit: accepted interval %s covers [1, %d]" % (iv, USIZE_BITS) if ok_iv else
           "the reader accepts id widths %s but the writer emits any width in [1, %d]: a schedule containing a task id that needs a rejected width "
           "does not survive the round trip" % (iv, USIZE_BITS), loc=rd.loc(loads[0]) if loads else rd.loc())
    rr, wrr = ranges(rd), ranges(wr)
    want_r = {(_canon({"offset": 1, "const": 1}), _canon({"offset": 1, "bits": 1, "const": 1}))}
    ctx.ob("C16.R4", "id-bit-range-agrees", rr == want_r and want_r <= wrr,
           "the task id occupies bits [offset+1, offset+1+bits) on both sides: reader %s, writer %s" % (sorted(rr), sorted(wrr)), loc=rd.loc())


RULES = [("C16.R4", r4_layout), ("C16.R1", r1_totality), ("C16.R2", r2_agreement), ("C16.R3", r3_whitespace)]
