"""C01 — a recorded schedule replays to the identical execution: recording discipline and seed plumbing."""
import re

from engine import kinds
from engine.facts import Site, Slicer, norm, operand_local, control_deps, last_field
from engine.slicing import FlowSlicer

CRATES = {"shuttle_engine", "shuttle_std", "shuttle", "shuttle_schedulers"}
EXPLANATION = (
    "Static decision of the recording discipline and seed plumbing that replay depends on. (R1) every scheduler decision is "
    "appended to the current schedule exactly once before any task code runs after it: push_task has a single caller (the "
    "function that moves next_task into current_task), current_task has only the allowed writers, the resume of a "
    "continuation and the `keep running` return of maybe_yield are both preceded by schedule()+advance. (R2) every random draw is "
    "appended before it is served: one consultation site of Scheduler::next_u64, dominated by push_random; single callers up to "
    "shuttle::rand::ThreadRng. (R3) in every scheduler the seed written into the Schedule is the seed the data source "
    "re-initialised itself with (and, for Random/URW, the seed the choice RNG is re-seeded with); replay initialises its data "
    "source from schedule.seed. (R4) the replay cursor is advanced before a step is served. (R5) the task list offered to the "
    "scheduler is filled from live_tasks, whose only mutators are add/finish/cleanup, and ids are tasks.len() in all three "
    "spawn functions. (R6) no ambient nondeterminism (OS randomness, clocks, environment, OS thread identity, RandomState) and "
    "no iteration over a default-hasher map/set in the engine, std, shuttle and scheduler crates outside the allow table.")
NOT_DECIDED = "equality of two concrete executions; determinism of Pcg64Mcg / SliceRandom (trusted); nondeterminism inside the user body"
ASSUMPTIONS = ["Pcg64Mcg::seed_from_u64 and rand's distributions are deterministic functions of the seed",
               "closures are run where they are passed"]

E = "shuttle_engine::runtime::execution::"
ES = E + "ExecutionState::"
CS = E + "CurrentSchedule::"
SCHED_TRAIT = "shuttle_engine::scheduler::Scheduler::"


def scheduler_impls(prog):
    return [im for im in prog.impls if im.get("trait") == "shuttle_engine::scheduler::Scheduler"]


def impl_method(prog, im, name):
    for m in im["items"]:
        if m["name"] == name:
            return prog.get(norm(m["key"]))
    return None


def r1_decisions_recorded(ctx):
    prog = ctx.prog
    ADV = ES + "advance_to_next_task"
    adv = ctx.body(ADV, "C01.R1")
    cal = kinds.callers(prog, CS + "push_task")
    kinds.check_who_may(ctx, "C01.R1", "caller of CurrentSchedule::push_task", {kinds.root_fn(prog, k) for k in cal}, {ADV}, required={ADV})
    # the function that records is the one that moves next_task into current_task
    w = kinds.writers_of_field(prog, E + "ExecutionState.current_task", {"shuttle_engine"}, kinds=("assign", "call_dst"))
    kinds.check_who_may(ctx, "C01.R1", "writer of ExecutionState.current_task", set(w),
                        {ADV, E + "Execution::run_to_completion"}, {k: v[0][0].loc(v[0][1]) for k, v in w.items()}, required={ADV})
    # in advance: every path returns through push_task when the new current task is Some (K3 on the Some edge): weaker, decidable form:
    # the write of current_task dominates the push and the push is control-dependent only on the discriminant of current_task
    pushes = [s for s, t in adv.calls() if CS + "push_task" in adv.callees_of_call(t, passed=False)]
    writes = [s for s in adv.sites() if adv.at(s).get("k") in ("assign", "call") and last_field(adv.at(s).get("dst", {"l": 0})) == E + "ExecutionState.current_task"]
    ok = bool(pushes) and bool(writes) and all(adv.site_dominates(writes[0], p) for p in pushes)
    ctx.ob("C01.R1", "advance-records", ok, "advance_to_next_task writes current_task and then appends the chosen task to the schedule", loc=adv.loc())
    if pushes:
        sl = Slicer(adv, control=True)
        cd = control_deps(adv)
        labs = set()
        fields = set()
        fsl = FlowSlicer(adv, control=False)
        for sw in cd.get(pushes[0].bb, ()):
            # an assertion (one arm never returns) is not a condition under which the decision goes unrecorded
            if any(adv.path_exists(Site(x, 0), adv.is_return, start_inclusive=True) is None for x in adv.succ[sw]):
                continue
            labs |= fsl.operand_labels(adv.term(sw)["discr"], adv.term_site(sw))
            f = kinds.discr_subject_field(adv, sl, adv.term(sw)["discr"])
            if f:
                fields.add(f)
        only_cur = fields <= {E + "ExecutionState.current_task"} and not any(l.startswith("call:") and "debug_assert" not in l and "mem::replace" not in l
                                                                             and "ScheduledTask::take" not in l for l in labs if "assert" not in l and "fmt" not in l)
        ctx.ob("C01.R1", "push-unconditional", fields == {E + "ExecutionState.current_task"} and only_cur,
               "the append in advance_to_next_task is conditional only on current_task being Some(_) (same-task decisions are recorded too): guards %s" % sorted(fields),
               loc=adv.loc(pushes[0]))
    # run_to_completion: resume is preceded by schedule + advance
    rtc = ctx.body(E + "Execution::run_to_completion", "C01.R1")
    cu = [s for s, t in rtc.calls() if "std::panic::catch_unwind" in rtc.callees_of_call(t, passed=False)]
    M_adv = prog.must_call({ADV}, invoke_closure_callees={ES + "with"}) | {ADV}
    if ctx.floor("C01.R1", "catch_unwind(resume) in run_to_completion", len(cu), 1):
        # the continuation to resume is produced (Some(..)) by the closure only after advance; the resume is controlled by that result
        c0b = ctx.closure(E + "Execution::run_to_completion", ADV, "C01.R1")
        somes = [s for s, st in c0b.assigns() if st["rv"]["k"] == "aggr" and st["rv"].get("variant") == "Some"] if c0b else []
        dom_ok = bool(somes) and all(kinds.must_precede(prog, c0b, s, {ADV}) is None for s in somes)
        sl_r = Slicer(rtc, control=True)
        cd_r = control_deps(rtc)
        labs = set()
        for sw in cd_r.get(cu[0].bb, ()):
            l, _ = sl_r.slice_operand(rtc.term(sw)["discr"])
            labs |= l
        ctrl_ok = ("call:" + ES + "with") in labs or ("call:" + c0b.nkey) in labs
        ctx.ob("C01.R1", "resume-after-advance", dom_ok and ctrl_ok,
               "a continuation is handed out for resumption only after advance_to_next_task recorded the decision, and the resume is controlled by that hand-out "
               "(%d hand-out sites)" % len(somes), loc=rtc.loc(cu[0]))
    c0 = ctx.closure(E + "Execution::run_to_completion", ADV, "C01.R1")
    if True:
        a = [s for s, t in c0.calls() if ADV in c0.callees_of_call(t, passed=False)]
        sc = [s for s, t in c0.calls() if ES + "schedule" in c0.callees_of_call(t, passed=False)]
        ctx.ob("C01.R1", "schedule-then-advance", bool(a) and bool(sc) and c0.site_dominates(sc[0], a[0]),
               "run_to_completion consults the scheduler (schedule) before advancing", loc=c0.loc())
    # maybe_yield: returning false (no context switch) only after advance
    mys = kinds.closures_calling(prog, ES + "maybe_yield", ADV)
    my = mys[0] if len(mys) == 1 else None
    if my is None:
        ctx.ob("C01.R1", "anchor|maybe_yield closure", False, "closure of maybe_yield not found — rule not established", nontrivial=False)
    else:
        falses = [s for s, st in my.assigns() if st["dst"]["l"] == 0 and not st["dst"].get("p") and st["rv"]["k"] == "use"
                  and st["rv"]["ops"][0].get("k") == "const" and st["rv"]["ops"][0].get("ev") == 0]
        # exits taken only while ExecutionState::cleanup runs are outside the recorded execution: the execution has ended, no task step
        # follows and nothing is (or should be) appended to the schedule (D9)
        fsy = FlowSlicer(my)
        sched_sites = {x for x, t in my.calls() if ES + "schedule" in my.callees_of_call(t, passed=False)}
        post = [s for s in falses if ("field:" + E + "ExecutionState.in_cleanup") in fsy.guard_labels(s)
                and my.path_exists(None, lambda x, s=s: x == s, lambda x: x in sched_sites) is not None]
        w_cl = kinds.writers_of_field(prog, E + "ExecutionState.in_cleanup", {"shuttle_engine"}, kinds=("assign", "call_dst"))
        kinds.check_who_may(ctx, "C01.R1", "writer of ExecutionState.in_cleanup", set(w_cl), {ES + "cleanup"})
        falses = [s for s in falses if s not in post]
        ctx.floor("C01.R1", "`return false` sites in maybe_yield", len(falses), 1)
        for i, s in enumerate(falses):
            wv = kinds.must_precede(prog, my, s, {ADV})
            ctx.ob("C01.R1", "keep-running-after-advance|#%d" % i, wv is None,
                   "maybe_yield returns false (task keeps running without a context switch) only after advance_to_next_task recorded the decision", loc=my.loc(s))


def r2_draws_recorded(ctx):
    prog = ctx.prog
    NEXT = ES + "next_u64"
    impl_bodies = set()
    for im in scheduler_impls(prog):
        for m in im["items"]:
            impl_bodies.add(norm(m["key"]))
    sites = []
    for b in prog.all_bodies({"shuttle_engine"}):
        if kinds.root_fn(prog, b.nkey) in impl_bodies:
            continue
        for s, t in b.calls():
            if SCHED_TRAIT + "next_u64" in b.callees_of_call(t, passed=False) or any(c.endswith("Scheduler>::next_u64") for c in b.callees_of_call(t, passed=False)):
                sites.append((b, s))
    ctx.ob("C01.R2", "single-draw-site", len(sites) == 1, "the engine consults Scheduler::next_u64 at exactly one site outside scheduler wrappers: %s" %
           [kinds.root_fn(prog, b.nkey) for b, s in sites], loc=sites[0][0].loc(sites[0][1]) if sites else None)
    for b, s in sites:
        w = kinds.must_precede(prog, b, s, {CS + "push_random"})
        ctx.ob("C01.R2", "record-before-serve|" + b.nkey, w is None and kinds.root_fn(prog, b.nkey) == NEXT,
               "the draw in `%s` is preceded by CurrentSchedule::push_random on every path" % b.nkey, loc=b.loc(s))
    cal = kinds.callers(prog, CS + "push_random")
    kinds.check_who_may(ctx, "C01.R2", "caller of CurrentSchedule::push_random", {kinds.root_fn(prog, k) for k in cal}, {NEXT}, required={NEXT})
    cal = kinds.callers(prog, NEXT)
    kinds.check_who_may(ctx, "C01.R2", "caller of ExecutionState::next_u64", {kinds.root_fn(prog, k) for k in cal},
                        {"<shuttle::rand::rngs::ThreadRng as rand_core::RngCore>::next_u64"})
    # ... and every value shuttle::rand hands out comes from such a draw made during THIS call: a value served from a buffer (the unused
    # half of an earlier draw, a cache) is not in the recorded schedule at the position where the program received it
    M_draw = prog.must_call({NEXT}) | {NEXT}
    TR = "<shuttle::rand::rngs::ThreadRng as rand_core::RngCore>::"
    for meth in ("next_u32", "next_u64"):          # fill_bytes goes through rand_core::impls::fill_bytes_via_next (C20.R4), i.e. through next_u64
        mb = ctx.body(TR + meth, "C01.R2")
        w = mb.path_exists(None, mb.is_return, lambda x, mb=mb: prog.site_calls(mb, x, M_draw))
        ctx.ob("C01.R2", "value-comes-from-a-draw|" + meth, w is None,
               "`ThreadRng::%s` makes a recorded draw on every path on which it returns a value" % meth if w is None else
               "`ThreadRng::%s` can return a value without making a draw: the value comes from state that is not in the recorded schedule" % meth, loc=mb.loc())


REINIT = "shuttle_engine::scheduler::data::DataSource::reinitialize"
SCHEDULE_NEW = "shuttle_engine::scheduler::Schedule::new"
EXEMPT_SEED = {"shuttle_schedulers::uncontrolled_nondeterminism::UncontrolledNondeterminismCheckScheduler":
               "returns a dummy schedule on its replay pass because it serves the recorded values itself"}
WRAPPERS = ("MetricsScheduler", "AnnotationScheduler", "PortfolioStoppableScheduler", "Box<dyn", "alloc::boxed::Box", "UncontrolledNondeterminismCheckScheduler")


def r3_seed_plumbing(ctx):
    prog = ctx.prog
    n = 0
    for im in scheduler_impls(prog):
        st = im.get("self_ty", "")
        if any(w in st for w in WRAPPERS):
            continue
        ne = impl_method(prog, im, "new_execution")
        if ne is None:
            continue
        n += 1
        sl = Slicer(ne, alias_defs=False)
        news = [(s, t) for s, t in ne.calls() if SCHEDULE_NEW in ne.callees_of_call(t, passed=False)]
        ok = bool(news)
        for s, t in news:
            labels, _ = sl.slice_operand(t["args"][0])
            from_reinit = any(l == "call:" + REINIT or (l.startswith("call:<") and l.endswith("DataSource>::reinitialize")) for l in labels)
            own = any(l.startswith("field:") and l.endswith(".data_source") for l in Slicer(ne).slice_operand(t["args"][0])[0])
            ok &= from_reinit
            ctx.ob("C01.R3", "schedule-seed|" + ne.nkey, from_reinit,
                   "`%s` writes into the Schedule the seed returned by its data source's reinitialize()" % ne.nkey if from_reinit else
                   "`%s` builds Schedule::new from something other than the seed its data source re-initialised itself with: replay would draw different data" % ne.nkey,
                   loc=ne.loc(s))
        if not news:
            ctx.ob("C01.R3", "schedule-seed|" + ne.nkey, False, "`%s` never builds a Schedule" % ne.nkey, loc=ne.loc())
        # choice RNG re-seeded from the same value (Random, URW)
        seeds = [(s, t) for s, t in ne.calls() if any(c.endswith("SeedableRng::seed_from_u64") or c.endswith("SeedableRng>::seed_from_u64") for c in ne.callees_of_call(t, passed=False))]
        has_rng_field = any(f["name"] == "rng" and "Pcg" in f["ty"] for a in [prog.adts.get(norm(im.get("self_adt", "")))] if a for v in a["variants"] for f in v["fields"])
        uses_rng_for_choice = False
        nt = impl_method(prog, im, "next_task")
        if nt is not None:
            reach = prog.may_reach([nt.nkey])
            uses_rng_for_choice = any(("SliceRandom" in c or "choose" in c or "gen_range" in c or "sample" in c) for c in reach)
        if has_rng_field and uses_rng_for_choice and "Pct" not in st:
            good = False
            for s, t in seeds:
                la, _ = sl.slice_operand(t["args"][0])
                if any(l == "call:" + REINIT or l.endswith("DataSource>::reinitialize") for l in la):
                    good = True
            ctx.ob("C01.R3", "choice-rng-reseeded|" + ne.nkey, good,
                   "`%s` re-seeds its choice RNG from the same per-execution seed" % ne.nkey if good else
                   "`%s` does not re-seed its choice RNG from the per-execution seed: the recorded seed would not reproduce the iteration" % ne.nkey, loc=ne.loc())
    ctx.floor("C01.R3", "concrete schedulers", n, 6)
    rp = ctx.body("shuttle_schedulers::replay::ReplayScheduler::new_from_schedule", "C01.R3")
    ini = [(s, t) for s, t in rp.calls() if any(c.endswith("DataSource>::initialize") or c.endswith("DataSource::initialize") for c in rp.callees_of_call(t, passed=False))]
    ok = False
    for s, t in ini:
        la, _ = Slicer(rp, alias_defs=False).slice_operand(t["args"][0])
        ok |= "field:shuttle_engine::scheduler::Schedule.seed" in la
    ctx.ob("C01.R3", "replay-seed", ok, "ReplayScheduler initialises its data source from schedule.seed", loc=rp.loc())
    # ... and the data source is a function of that seed alone: nothing reachable from DataSource::{initialize, reinitialize,
    # next_u64} consults the environment, the clock or OS randomness (an override read there would make replay ignore schedule.seed)
    nds = 0
    for im in prog.impls:
        if im.get("trait") != "shuttle_engine::scheduler::data::DataSource":
            continue
        for meth in ("initialize", "reinitialize", "next_u64"):
            mb = impl_method(prog, im, meth)
            if mb is None:
                continue
            nds += 1
            amb = sorted(c for c in prog.may_reach([mb.nkey]) if DENY.search(c))
            ctx.ob("C01.R3", "data-source-pure|" + mb.nkey, not amb,
                   "`%s` depends on its seed / own state only" % mb.nkey if not amb else
                   "`%s` reaches an ambient source (%s): the stream replayed from schedule.seed would differ from the recorded one whenever that source differs" % (mb.nkey, amb[0]),
                   loc=mb.loc())
    ctx.floor("C01.R3", "DataSource methods examined", nds, 6)
    from rules.c10 import reseed_returns_installed      # the seed recorded in the Schedule is the seed the generator restarted from
    reseed_returns_installed(ctx, "C01.R3")


def r4_replay_cursor(ctx):
    prog = ctx.prog
    R = "<shuttle_schedulers::replay::ReplayScheduler as shuttle_engine::scheduler::Scheduler>::"
    nt = ctx.body(R + "next_task", "C01.R4")
    STEPS = "shuttle_schedulers::replay::ReplayScheduler.steps"
    wsteps = lambda b: [s for s in b.sites() if b.at(s).get("k") == "assign" and last_field(b.at(s)["dst"]) == STEPS]
    somes = [s for s, st in nt.assigns() if st["dst"]["l"] == 0 and st["rv"]["k"] == "aggr" and st["rv"].get("variant") == "Some"]
    ctx.floor("C01.R4", "`return Some(task)` sites in ReplayScheduler::next_task", len(somes), 1)
    ws = set(wsteps(nt))
    for i, s in enumerate(somes):
        w = nt.path_exists(None, lambda x, s=s: x == s, lambda x: x in ws)
        ctx.ob("C01.R4", "cursor-advanced|next_task#%d" % i, w is None, "ReplayScheduler::next_task advances its cursor before serving a step", loc=nt.loc(s))
    nu = ctx.body(R + "next_u64", "C01.R4")
    ws = set(wsteps(nu))
    serve = [s for s, t in nu.calls() if any(c.endswith("DataSource>::next_u64") or c.endswith("DataSource::next_u64") for c in nu.callees_of_call(t, passed=False))]
    for i, s in enumerate(serve):
        w = nu.path_exists(None, lambda x, s=s: x == s, lambda x: x in ws)
        ctx.ob("C01.R4", "cursor-advanced|next_u64#%d" % i, w is None, "ReplayScheduler::next_u64 advances its cursor before serving a draw", loc=nu.loc(s))
    ctx.floor("C01.R4", "served draws in ReplayScheduler::next_u64", len(serve), 1)


def r5_presentation(ctx):
    prog = ctx.prog
    LIVE = E + "ExecutionState.live_tasks"
    w = kinds.writers_of_field(prog, LIVE, {"shuttle_engine"}, kinds=("assign", "refmut", "call_dst"))
    kinds.check_who_may(ctx, "C01.R5", "mutator of ExecutionState.live_tasks", set(w),
                        {ES + "add_task", ES + "finish_task", ES + "cleanup"}, {k: v[0][0].loc(v[0][1]) for k, v in w.items()},
                        required={ES + "add_task", ES + "finish_task"})
    sch = ctx.body(ES + "schedule", "C01.R5")
    # the offered list is pushed inside a loop whose iterator comes from live_tasks
    pushes = [s for s, t in sch.calls() if "alloc::vec::Vec::push" in sch.callees_of_call(t, passed=False)]
    sl = Slicer(sch, control=True)
    ok = bool(pushes)
    for s in pushes:
        labels, _ = sl.slice_operand(sch.term(s.bb)["args"][1])
        ok &= ("field:" + LIVE) in labels
    ctx.ob("C01.R5", "offered-from-live_tasks", ok, "every task offered to the scheduler comes from the iteration over live_tasks (ascending id order by construction)", loc=sch.loc())
    for f in ("spawn_thread", "spawn_future", "spawn_main_thread"):
        found = False
        for b in prog.all_bodies({"shuttle_engine"}):
            if kinds.root_fn(prog, b.nkey) != ES + f:
                continue
            for s, st in b.assigns():
                rv = st["rv"]
                if rv["k"] == "aggr" and rv.get("ak") == "adt" and norm(rv["adt"]) == "shuttle_engine::runtime::task::TaskId":
                    labels, _ = Slicer(b).slice_operand(rv["ops"][0])
                    found = ("field:" + E + "ExecutionState.tasks") in labels and any(l.endswith("::len") for l in labels)
                    ctx.ob("C01.R5", "id-is-tasks-len|" + f, found, "`%s` numbers the new task TaskId(tasks.len())" % f, loc=b.loc(s))
        if not found:
            ctx.ob("C01.R5", "id-is-tasks-len|" + f, False, "`%s`: no TaskId(tasks.len()) construction found — rule not established" % f)


DENY = re.compile(r"(rand_core::os::OsRng|rand::rngs::thread::thread_rng|^rand::random|getrandom::|std::time::SystemTime::now|std::time::Instant::now|"
                  r"std::time::Instant::elapsed|std::env::(var|vars|args|var_os)$|std::thread::current$|std::thread::functions::current$|std::process::id$|"
                  r"std::hash::random::RandomState::new$|hash::random::RandomState as core::default::Default>::default$)")
HASHIT = re.compile(r"std::collections::hash::(map::HashMap|set::HashSet)::(iter|iter_mut|keys|values|values_mut|drain|into_iter|retain|into_keys|into_values)$|"
                    r"<&?(mut )?std::collections::hash::(map::HashMap|set::HashSet) as core::iter::traits::collect::IntoIterator>::into_iter")
ALLOW_AMBIENT = {
    ("shuttle_schedulers::random::RandomScheduler::new", "OsRng"): "fresh seed for a new run; the drawn seed is the one recorded in every Schedule",
    ("shuttle_schedulers::pct::PctScheduler::new", "OsRng"): "fresh seed for a new run",
    ("shuttle_schedulers::urw::UrwRandomScheduler::new", "OsRng"): "fresh seed for a new run",
    ("shuttle_engine::runtime::runner::Runner::run", "Instant"): "time budget, read only between iterations (C13.R4)",
    ("shuttle_engine::seed_from_env", "env::var"): "SHUTTLE_RANDOM_SEED override, read once in the scheduler constructor",
    ("shuttle_engine::backtrace_enabled", "env::var"): "diagnostics switch; does not influence scheduling",
    ("shuttle_engine::silence_warnings", "env::var"): "diagnostics switch",
    ("<shuttle_schedulers::random::RandomScheduler as shuttle_engine::scheduler::Scheduler>::new_execution", "env::var"): "SHUTTLE_ALWAYS_PERSIST_SEED: writes the seed to a file, never read back",
    ("shuttle_engine::annotations::annotation_file", "env::var"): "annotation output path",
}
ALLOW_HASHIT = {
    "shuttle_std::sync::barrier::Barrier::wait": "drain of the waiter set: per-task clock merge + unblock commute, the order is not observable",
    "<shuttle_schedulers::pct::PctScheduler as shuttle_engine::scheduler::Scheduler>::new_execution": "inside debug_assert: only the size of the collected set is used",
    "shuttle_schedulers::urw::UrwRandomScheduler::initialize_estimates_from_observed_counts": "keys() collected into a set for its size (debug_assert) and values().min(): both order independent",
}


# the reviewed iterations of each table entry, as "<field(s) the receiver derives from>:<method>" (filled from the pinned tree)
ALLOW_HASHIT_WHAT = {
    "<shuttle_schedulers::pct::PctScheduler as shuttle_engine::scheduler::Scheduler>::new_execution": {"priorities:iter"},
    "shuttle_schedulers::urw::UrwRandomScheduler::initialize_estimates_from_observed_counts": {"signature_event_counts:keys", "signature_event_counts,signature_parents:values",
                                                                                               "signature_event_counts:values"},
    "shuttle_std::sync::barrier::Barrier::wait": {"state,waiters:drain", "waiters:drain"},
}


def hash_iteration_allowed(prog, b, s, t, callee):
    root = kinds.root_fn(prog, b.nkey)
    return root in ALLOW_HASHIT and hash_iteration_what(b, s, t, callee) in ALLOW_HASHIT_WHAT.get(root, ())


def hash_iteration_what(b, s, t, callee):
    labs = FlowSlicer(b, control=False).operand_labels(t["args"][0], s) if t.get("args") else set()
    flds = sorted({l[6:].rsplit(".", 1)[-1] for l in labs if l.startswith("field:") and not l.endswith((".0", ".1"))})
    return "%s:%s" % (",".join(flds) or "?", callee.rsplit("::", 1)[-1])


def r6_ambient(ctx):
    prog = ctx.prog
    n_calls = 0
    seen = set()
    for b in prog.all_bodies(CRATES):
        if "::tests::" in b.nkey or "::test::" in b.nkey:
            continue
        root = kinds.root_fn(prog, b.nkey)
        for s, t in b.calls():
            n_calls += 1
            for c in b.callees_of_call(t, passed=False):
                if DENY.search(c):
                    kind = "OsRng" if "OsRng" in c else "Instant" if "Instant" in c else "env::var" if "env::" in c else c.split("::")[-1]
                    key = (root, kind)
                    if key in seen:
                        continue
                    seen.add(key)
                    ok = key in ALLOW_AMBIENT
                    ctx.ob("C01.R6", "ambient|%s|%s" % key, ok,
                           ("`%s` uses %s — allowed: %s" % (root, kind, ALLOW_AMBIENT[key])) if ok else
                           ("`%s` calls `%s`: ambient nondeterminism on code that runs during an execution is not captured by the recorded schedule" % (root, c)),
                           loc=b.loc(s), nontrivial=not ok)
                if HASHIT.search(c):
                    # which collection is iterated (last field the receiver derives from) and how: a table entry covers the iterations that
                    # were reviewed, not every later iteration in the same function
                    how = hash_iteration_what(b, s, t, c)
                    key = (root, "hash-iteration", how)
                    if key in seen:
                        continue
                    seen.add(key)
                    ok = root in ALLOW_HASHIT and (root not in ALLOW_HASHIT_WHAT or how in ALLOW_HASHIT_WHAT[root])
                    ctx.ob("C01.R6", "hash-order|%s|%s" % (root, how), ok,
                           ("`%s` iterates a default-hasher collection — allowed: %s" % (root, ALLOW_HASHIT[root])) if ok else
                           ("`%s` iterates a std HashMap/HashSet (`%s`): the iteration order depends on a per-process random hasher state and "
                            "is not reproduced by replaying the schedule" % (root, c)), loc=b.loc(s), nontrivial=not ok)
    ctx.ob("C01.R6", "scanned", True, "%d call sites of the engine, std, shuttle and scheduler crates scanned against the deny-list" % n_calls, nontrivial=False)
    ctx.floor("C01.R6", "call sites scanned", n_calls, 3000)
    # StorageMap destroys through its order deque, not through the map
    pop = ctx.body("shuttle_engine::runtime::storage::StorageMap::pop", "C01.R6")
    uses_order = any(kinds.mentions_field(pop, s, "shuttle_engine::runtime::storage::StorageMap.order") for s in pop.sites())
    ctx.ob("C01.R6", "storage-pop-order", uses_order, "StorageMap::pop chooses the next destructor from the `order` deque (not from the hash map)", loc=pop.loc())


RULES = [("C01.R1", r1_decisions_recorded), ("C01.R2", r2_draws_recorded), ("C01.R3", r3_seed_plumbing), ("C01.R4", r4_replay_cursor),
         ("C01.R5", r5_presentation), ("C01.R6", r6_ambient)]
