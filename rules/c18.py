"""C18 — BatchSemaphore (narrow): queue/flag pairing (invariants 2-4 of the source), single writers of the permit
count, cancel path, fair admission guard, the released task is the current poller."""
import re

from engine import kinds
from engine.facts import Site, Slicer, norm, operand_local, control_deps, last_field
from engine.slicing import FlowSlicer, expand_closure_labels

CRATES = {"shuttle_engine"}
EXPLANATION = (
    "Static decision of structural clauses of C18 on BatchSemaphore's code. (R1) every function that adds to the waiter queue "
    "sets Waiter.is_queued and every function that removes from it (pop_front, remove, drain, clear) clears is_queued (source "
    "invariant 2); has_permits is set only after a PermitsAvailable::acquire / acquire_permits for that waiter (invariant 3); close "
    "drains the queue (invariant 4). (R2) PermitsAvailable.num_available is written only by acquire/release (and constructors), "
    "`closed` only by close_no_scheduling_point and the panicking branch of release. (R3) Acquire::drop removes a queued waiter and "
    "releases permits that were granted but not consumed; removing the head of a fair queue re-runs the grant loop. (R4) in "
    "acquire_permits the grant is guarded by `closed`, by waiters.is_empty() and by fairness; a queued waiter of a fair semaphore "
    "does not try to acquire in poll. (R5) both Pending exits of Acquire::poll store the waker and re-point the waiter at the "
    "current poller.")
NOT_DECIDED = "conservation arithmetic (available + held = initial + added) and grant order over all operation sequences"
ASSUMPTIONS = ["closures are run where they are passed"]

B = "shuttle_engine::future::batch_semaphore::"
WAITERS = B + "BatchSemaphoreState.waiters"
IS_Q = B + "Waiter.is_queued"
HAS_P = B + "Waiter.has_permits"
POLL = "<" + B + "Acquire as core::future::future::Future>::poll"
DROP = "<" + B + "Acquire as core::ops::drop::Drop>::drop"


def _calls_on_field(prog, b, field, meth_re):
    """Call sites in b whose receiver (arg 0) derives from `field` and whose callee matches meth_re."""
    out = []
    sl = Slicer(b, alias_defs=False)
    for s, t in b.calls():
        names = b.callees_of_call(t, passed=False)
        if not any(meth_re.search(n) for n in names) or not t.get("args"):
            continue
        labels, _ = sl.slice_operand(t["args"][0])
        if ("field:" + field) in labels:
            out.append((s, t))
    return out


def _atomic_flag_writes(prog, b, field):
    """[(site, value)] of AtomicBool store/swap on `field` with a constant bool argument."""
    out = []
    for s, t in _calls_on_field(prog, b, field, re.compile(r"atomic::Atomic.*::(store|swap)$")):
        v = kinds.operand_const(b, t["args"][1]) if len(t["args"]) > 1 else None
        out.append((s, v))
    return out


def r1_pairing(ctx):
    prog = ctx.prog
    add_re = re.compile(r"VecDeque::(push_back|push_front|insert)$")
    rem_re = re.compile(r"VecDeque::(pop_front|pop_back|remove|drain|clear|retain|truncate)$")
    adders, removers = {}, {}
    for b in prog.all_bodies(CRATES):
        if not b.nkey.startswith(B) and not b.nkey.startswith("<" + B):
            continue
        a = _calls_on_field(prog, b, WAITERS, add_re)
        r = _calls_on_field(prog, b, WAITERS, rem_re)
        if a:
            adders[b.nkey] = (b, a)
        if r:
            removers[b.nkey] = (b, r)
    ctx.floor("C18.R1", "functions adding to the waiter queue", len(adders), 1)
    ctx.floor("C18.R1", "functions removing from the waiter queue", len(removers), 4)
    for k, (b, sites) in sorted(adders.items()):
        ws = [v for s, v in _atomic_flag_writes(prog, b, IS_Q)]
        ctx.ob("C18.R1", "enqueue-sets-flag|" + k, 1 in ws, "`%s` adds to the queue and sets is_queued" % k, loc=b.loc(sites[0][0]))
    for k, (b, sites) in sorted(removers.items()):
        ws = _atomic_flag_writes(prog, b, IS_Q)
        # include closures nested in b (drain loops)
        ok = any(v == 0 for s, v in ws)
        ctx.ob("C18.R1", "dequeue-clears-flag|" + k, ok,
               "`%s` removes from the queue and clears is_queued" % k if ok else
               "`%s` removes a waiter from the queue but never clears its is_queued flag: a later poll/drop of that Acquire would act on a waiter that is no longer queued" % k,
               loc=b.loc(sites[0][0]))
        # for single removals (not loops): every path from the removal to return clears the flag
        for s, t in sites:
            in_loop = b.path_exists(s, lambda x, s=s: x == s) is not None
            clear_sites = {x for x, v in ws if v == 0}
            if not in_loop and clear_sites and not any("drain" in n or "clear" in n for n in b.callees_of_call(t, passed=False)):
                w = b.path_exists(s, b.is_return, lambda x: x in clear_sites)
                ctx.ob("C18.R1", "dequeue-then-clear|%s|%s" % (k, sorted(b.callees_of_call(t, passed=False))[0].split("::")[-1]), w is None,
                       "`%s`: after removing the waiter every path to return clears is_queued" % k, loc=b.loc(s))
    # has_permits set only after a successful acquire for that waiter
    GRANT = {B + "PermitsAvailable::acquire", B + "BatchSemaphoreState::acquire_permits"}
    n = 0
    for b in prog.all_bodies(CRATES):
        for s, v in _atomic_flag_writes(prog, b, HAS_P):
            if v != 1:
                continue
            n += 1
            w = kinds.must_precede(prog, b, s, GRANT)
            ctx.ob("C18.R1", "grant-before-has_permits|" + b.nkey, w is None, "`%s` sets has_permits only after permits were taken from PermitsAvailable" % b.nkey, loc=b.loc(s))
    ctx.floor("C18.R1", "sites setting has_permits", n, 2)
    cl = ctx.body(B + "BatchSemaphore::close_no_scheduling_point", "C18.R1")
    dr = _calls_on_field(prog, cl, WAITERS, re.compile(r"VecDeque::drain$"))
    ctx.ob("C18.R1", "close-drains", bool(dr), "close drains the waiter queue (invariant: closed => waiters.is_empty())", loc=cl.loc())


def r2_single_writers(ctx):
    prog = ctx.prog
    w = kinds.writers_of_field(prog, B + "PermitsAvailable.num_available", CRATES, kinds=("assign", "call_dst", "refmut"))
    kinds.check_who_may(ctx, "C18.R2", "writer of PermitsAvailable.num_available", set(w), {B + "PermitsAvailable::acquire", B + "PermitsAvailable::release"},
                        {k: v[0][0].loc(v[0][1]) for k, v in w.items()}, required={B + "PermitsAvailable::acquire", B + "PermitsAvailable::release"})
    w = kinds.writers_of_field(prog, B + "BatchSemaphoreState.closed", CRATES, kinds=("assign", "call_dst", "refmut"))
    kinds.check_who_may(ctx, "C18.R2", "writer of BatchSemaphoreState.closed", set(w), {B + "BatchSemaphore::close_no_scheduling_point", B + "BatchSemaphore::release"})
    cal = kinds.callers(prog, B + "PermitsAvailable::acquire")
    kinds.check_who_may(ctx, "C18.R2", "caller of PermitsAvailable::acquire", {kinds.root_fn(prog, k) for k in cal},
                        {B + "BatchSemaphoreState::acquire_permits", B + "BatchSemaphoreState::unblock_waiters_from_front"})
    cal = kinds.callers(prog, B + "PermitsAvailable::release")
    kinds.check_who_may(ctx, "C18.R2", "caller of PermitsAvailable::release", {kinds.root_fn(prog, k) for k in cal}, {B + "BatchSemaphore::release"})


def r3_cancel(ctx):
    prog = ctx.prog
    d = ctx.body(DROP, "C18.R3")
    fs = FlowSlicer(d)
    rm = [s for s, t in d.calls() if B + "BatchSemaphore::remove_waiter" in d.callees_of_call(t, passed=False)]
    rl = [s for s, t in d.calls() if B + "BatchSemaphore::release" in d.callees_of_call(t, passed=False)]
    ok = bool(rm) and ("field:" + IS_Q) in fs.guard_labels(rm[0])
    ctx.ob("C18.R3", "drop-removes-queued", ok, "Acquire::drop removes the waiter from the queue when is_queued is set", loc=d.loc())
    ok = bool(rl) and ("field:" + HAS_P) in fs.guard_labels(rl[0]) and ("field:" + B + "Acquire.completed") in fs.guard_labels(rl[0])
    ctx.ob("C18.R3", "drop-returns-granted", ok,
           "Acquire::drop releases the permits of a waiter that was granted them but never completed (guards: has_permits, completed)" if ok else
           "Acquire::drop does not give back permits granted to a cancelled acquisition: they are lost to all other waiters", loc=d.loc())
    if rl:
        amt = d.term(rl[0].bb)["args"][1]
        la, _ = Slicer(d, alias_defs=False).slice_operand(amt)
        ctx.ob("C18.R3", "drop-returns-own-amount", ("field:" + B + "Waiter.num_permits") in la, "the amount released on cancellation is the waiter's own num_permits", loc=d.loc(rl[0]))
    rw = ctx.body(B + "BatchSemaphore::remove_waiter", "C18.R3")
    fr = FlowSlicer(rw)
    ub = [s for s, t in rw.calls() if B + "BatchSemaphoreState::unblock_waiters_from_front" in rw.callees_of_call(t, passed=False)]
    labs = fr.guard_labels(ub[0]) if ub else set()
    ok = bool(ub) and ("field:" + B + "BatchSemaphore.fairness") in labs and any(l.endswith("Iterator::position") for l in labs)
    ctx.ob("C18.R3", "head-removal-regrants", ok,
           "remove_waiter re-runs the grant loop when the head of a strictly fair queue is removed (waiters behind a cancelled head are not stranded)", loc=rw.loc())


def r4_fair_admission(ctx):
    prog = ctx.prog
    ap = ctx.body(B + "BatchSemaphoreState::acquire_permits", "C18.R4")
    fs = FlowSlicer(ap)
    g = [s for s, t in ap.calls() if B + "PermitsAvailable::acquire" in ap.callees_of_call(t, passed=False)]
    if ctx.floor("C18.R4", "grant site in acquire_permits", len(g), 1):
        labs = fs.guard_labels(g[0])
        for lab, name in ((("field:" + B + "BatchSemaphoreState.closed"), "closed"), ("call:alloc::collections::vec_deque::VecDeque::is_empty", "waiters.is_empty()"),
                          ("arg:3", "fairness")):
            ctx.ob("C18.R4", "grant-guard|" + name, lab in labs,
                   "the immediate grant in acquire_permits is guarded by %s" % name if lab in labs else
                   "the immediate grant in acquire_permits no longer depends on %s: a new request could overtake queued waiters of a strictly fair semaphore "
                   "(or succeed on a closed one)" % name, loc=ap.loc(g[0]))
    p = ctx.body(POLL, "C18.R4")
    fp = FlowSlicer(p)
    a = [s for s, t in p.calls() if B + "BatchSemaphoreState::acquire_permits" in p.callees_of_call(t, passed=False)]
    if ctx.floor("C18.R4", "acquire_permits call in Acquire::poll", len(a), 1):
        labs = fp.guard_labels(a[0])
        ok = ("field:" + B + "BatchSemaphore.fairness") in labs and ("field:" + IS_Q) in labs
        ctx.ob("C18.R4", "queued-fair-waiter-does-not-retry", ok, "in poll, trying to acquire is guarded by (fairness, is_queued): a queued waiter of a fair semaphore waits for release to grant it", loc=p.loc(a[0]))


def r5_current_poller(ctx):
    prog = ctx.prog
    p = ctx.body(POLL, "C18.R5")
    pend = [s for s, st in p.assigns() if st["dst"]["l"] == 0 and ((st["rv"]["k"] == "aggr" and st["rv"].get("variant") == "Pending") or
                                                                   (st["rv"]["k"] == "use" and "Pending" in str(st["rv"]["ops"][0].get("v", ""))))]
    ctx.floor("C18.R5", "Pending exits of Acquire::poll", len(pend), 2)
    for i, s in enumerate(pend):
        w1 = kinds.must_precede(prog, p, s, {B + "Waiter::set_task_id"})
        w2 = kinds.must_precede(prog, p, s, {"core::task::wake::Waker::clone", "<core::task::wake::Waker as core::clone::Clone>::clone"})
        ctx.ob("C18.R5", "pending-repoints-waiter|#%d" % i, w1 is None and w2 is None,
               "Pending exit #%d of Acquire::poll stores the current waker and re-points the waiter at the current poller" % i if (w1 is None and w2 is None) else
               "Pending exit #%d of Acquire::poll does not refresh the waker / task id: a release would wake a task that is no longer waiting" % i, loc=p.loc(s))


def r6_grant_is_final(ctx):
    """Permits handed to a queued waiter by `release` have left the pool.  The acquisition that owns them must complete with Ok (or give
    them back in Drop, R3): it may report `closed` only after it has seen that it holds nothing.  Otherwise a close() between the grant
    and the waiter's next poll makes the acquisition fail while its permits are gone for good (completed = true disarms the Drop)."""
    prog = ctx.prog
    p = ctx.body(POLL, "C18.R6")
    errs = [s for s, t in p.calls() if any(c.endswith("AcquireError::closed") for c in p.callees_of_call(t, passed=False))]
    loads = _calls_on_field(prog, p, HAS_P, re.compile(r"atomic::Atomic.*::load$"))
    if not (ctx.floor("C18.R6", "AcquireError::closed() in Acquire::poll", len(errs), 1) and ctx.floor("C18.R6", "has_permits loads in Acquire::poll", len(loads), 1)):
        return
    not_granted_edges = set()
    for s, t in loads:
        br = kinds.bool_branch(p, s)
        if br is None:
            continue
        tr, fl = br
        for src in p.pred[fl]:
            if p.term(src).get("k") == "switch":
                not_granted_edges.add((src, fl))
    ctx.floor("C18.R6", "branches on has_permits in Acquire::poll", len(not_granted_edges), 1)
    for i, e in enumerate(errs):
        w = p.path_exists(None, lambda x, e=e: x == e, edge_ok=lambda a, nb: (a, nb) not in not_granted_edges)
        ctx.ob("C18.R6", "closed-only-if-nothing-granted|#%d" % i, w is None,
               "Acquire::poll reports `closed` only on paths that took the `has_permits == false` edge" if w is None else
               "Acquire::poll can report `closed` without having seen has_permits == false: a waiter that was already granted its permits fails, "
               "marks itself completed, and the permits are neither held nor returned", loc=p.loc(e))


def r7_grant_loop_fixpoint(ctx):
    """"a waiter at the head is granted as soon as enough permits exist ... never strands the waiters behind it": the grant loop of a
    fair semaphore stops only when the queue is empty or its head does not fit (source invariant 1).  Any other exit — a grant limit, a
    flag — can leave a head that fits in the queue with nobody left to serve it."""
    prog = ctx.prog
    u = ctx.body(B + "BatchSemaphoreState::unblock_waiters_from_front", "C18.R7")
    fs = FlowSlicer(u, control=False)
    allowed = set()
    for bb in range(len(u.blocks)):
        t = u.term(bb)
        if t.get("k") != "switch":
            continue
        labs = fs.operand_labels(t["discr"], u.term_site(bb))
        arms = dict((a[0], a[1]) for a in t["arms"])
        zero = arms.get(0, t["otherwise"])
        if any(l.endswith("VecDeque::front") for l in labs) and ("field:" + WAITERS) in labs and not any(l.endswith(("::available", "num_permits")) for l in labs):
            allowed.add((bb, zero))              # front() is None: the queue is empty
        if any(l.endswith("PermitsAvailable::available") for l in labs) and ("field:" + B + "Waiter.num_permits") in labs:
            allowed.add((bb, zero))              # the head does not fit
    ctx.floor("C18.R7", "legitimate exits of the grant loop (queue empty / head does not fit)", len(allowed), 2)
    w = u.path_exists(None, u.is_return, edge_ok=lambda a, nb: (a, nb) not in allowed)
    ctx.ob("C18.R7", "grant-loop-runs-to-fixpoint", len(allowed) >= 2 and w is None,
           "unblock_waiters_from_front returns only when the queue is empty or the head does not fit" if (len(allowed) >= 2 and w is None) else
           "unblock_waiters_from_front can return while the queue is non-empty and its head fits (an exit other than `front() is None` / `head does not fit`): "
           "waiters behind a cancelled or served head are stranded although enough permits are available", loc=u.loc())


RULES =[("C18.R1", r1_pairing), ("C18.R2", r2_single_writers), ("C18.R3", r3_cancel), ("C18.R4", r4_fair_admission), ("C18.R5", r5_current_poller),
         ("C18.R6", r6_grant_is_final), ("C18.R7", r7_grant_loop_fixpoint)]
