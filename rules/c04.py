"""C04 — Mutex / RwLock permit accounting (K11 typestate), holder bookkeeping (K1), atomics are one step
(K1+K2+K9), poisoning branch of release (K3)."""
from engine import kinds
from engine.absint import Interp, Config, net_effects, fmt_effects, fmt_amt, Overflow
from engine.facts import Site, norm, operand_local

CRATES = {"shuttle_engine", "shuttle_std"}
EXPLANATION = (
    "Static decision of the structural clauses of C04 on the MIR of /repo's current tree. "
    "(R1) permit typestate: an abstract interpreter enumerates the outcomes (return variant, permits taken/"
    "released per semaphore, facts about closed/acquired) of every normal path of Mutex::{lock,try_lock,into_inner} "
    "and RwLock::{read,write,try_read,try_write,into_inner}: a guard is only built while holding exactly the "
    "amount its Drop releases (or on the closed/poison branch), an outcome that builds no guard holds nothing "
    "(failed try leaves the lock unchanged), the semaphore capacity equals the exclusive amount and exceeds "
    "exclusive+shared, fairness is Unfair. (R2) only the lock/guard functions write the holder field. "
    "(R3) Atomic.inner is touched only by the eight Atomic methods; in load/store/swap/fetch_update a choice "
    "point dominates the first access and no call that may reach a choice point lies between two accesses; every "
    "public atomic method performs at most one such operation per path. (R4) release() on the panicking branch "
    "returns the permits, clears the queue, closes the semaphore and unblocks nobody.")
NOT_DECIDED = "values returned by atomic operations; that all atomic operations of an execution form one SC total order"
ASSUMPTIONS = [
    "the user closure of fetch_update is opaque and assumed not to be a choice point",
    "BatchSemaphore grants an acquire only when the requested permits are available (C18)",
]

M = "shuttle_std::sync::mutex::"
R = "shuttle_std::sync::rwlock::"
GUARDS = {M + "MutexGuard": "<" + M + "MutexGuard as core::ops::drop::Drop>::drop",
          R + "RwLockReadGuard": "<" + R + "RwLockReadGuard as core::ops::drop::Drop>::drop",
          R + "RwLockWriteGuard": "<" + R + "RwLockWriteGuard as core::ops::drop::Drop>::drop"}
SEMFIELD = {M + "MutexGuard": M + "Mutex.semaphore", R + "RwLockReadGuard": R + "RwLock.semaphore",
            R + "RwLockWriteGuard": R + "RwLock.semaphore"}
# function -> guard ADT it hands out
API = {
    M + "Mutex::lock": M + "MutexGuard", M + "Mutex::try_lock": M + "MutexGuard",
    R + "RwLock::read": R + "RwLockReadGuard", R + "RwLock::try_read": R + "RwLockReadGuard",
    R + "RwLock::write": R + "RwLockWriteGuard", R + "RwLock::try_write": R + "RwLockWriteGuard",
}


def observe(body, site, st, it=None, state=None):
    if st.get("k") == "assign" and st["rv"]["k"] == "aggr" and st["rv"].get("ak") == "adt":
        a = norm(st["rv"]["adt"])
        if a in GUARDS:
            return "tag:guard:" + a
    return None


def r1_accounting(ctx):
    prog = ctx.prog
    it = Interp(prog, Config(observe=observe))
    # amount released by each guard's Drop
    released = {}
    for g, dk in GUARDS.items():
        ctx.body(dk, "C04.R1")
        outs = it.summary(dk)
        amts = set()
        for o in outs:
            rel = [ev for ev in o["effects"] if ev[0] == "rel"]
            amts.add(tuple((ev[1], ev[2]) for ev in rel))
        ok = len(amts) == 1 and len(next(iter(amts))) == 1 and next(iter(amts))[0][0] == ("field", SEMFIELD[g]) \
            and next(iter(amts))[0][1][0] == "c"
        if ok:
            released[g] = next(iter(amts))[0][1]
        ctx.ob("C04.R1", "drop-releases|" + g, ok,
               "every path of `%s` releases exactly one constant amount on %s: %s" %
               (dk, SEMFIELD[g].split("::")[-1], sorted(fmt_effects(o["effects"]) for o in outs)),
               loc=prog.get(dk).loc())
    # capacity and fairness at the constructors
    caps = {}
    for ctor, semfield in ((M + "Mutex::new_internal", M + "Mutex.semaphore"), (R + "RwLock::new", R + "RwLock.semaphore")):
        b = ctx.body(ctor, "C04.R1")
        calls = [(s, t) for s, t in b.calls() if any(c.startswith("shuttle_engine::future::batch_semaphore::BatchSemaphore::") and
                                                     ("new" in c.rsplit("::", 1)[1]) for c in b.callees_of_call(t, passed=False))]
        if not ctx.floor("C04.R1", "semaphore constructor call in " + ctor, len(calls), 1):
            continue
        s, t = calls[0]
        cap = kinds.operand_const(b, t["args"][0])
        fair = kinds.operand_enum_variant(b, t["args"][1]) or "?"
        caps[semfield] = cap
        ctx.ob("C04.R1", "fairness|" + ctor, fair == "Unfair",
               "`%s` builds its semaphore with %s (Unfair is what the lock() entry of the C02 commuting-block table assumes)" % (ctor, fair),
               loc=b.loc(s))
    mg, rg, wg = M + "MutexGuard", R + "RwLockReadGuard", R + "RwLockWriteGuard"
    if mg in released:
        ctx.ob("C04.R1", "capacity|Mutex", caps.get(M + "Mutex.semaphore") == released[mg][1] == 1,
               "Mutex capacity %s == amount held by a MutexGuard %s == 1" % (caps.get(M + "Mutex.semaphore"), fmt_amt(released[mg])))
    if rg in released and wg in released:
        cap = caps.get(R + "RwLock.semaphore")
        r_, w_ = released[rg][1], released[wg][1]
        ctx.ob("C04.R1", "capacity|RwLock", cap is not None and w_ == cap and r_ >= 1 and r_ + w_ > cap,
               "RwLock capacity %s == write amount %s, read amount %s >= 1, read+write > capacity (a reader excludes a writer and vice versa)" % (cap, w_, r_))
    # outcomes of every API function
    for f, g in sorted(API.items()):
        b = ctx.body(f, "C04.R1")
        try:
            outs = it.summary(f)
        except Overflow as e:
            ctx.ob("C04.R1", "outcomes|" + f, False, "abstract interpretation did not converge: %s" % e, loc=b.loc())
            continue
        semf = ("field", SEMFIELD[g])
        n_guard = 0
        for i, o in enumerate(outs):
            built = ("guard:" + g) in o["tags"]
            closed = o["facts"].get(("closed", semf)) is True
            net = net_effects(o["effects"])
            other = {k: v for k, v in net.items() if k != semf}
            held = net.get(semf, [])
            retname = o["ret"][2] if o["ret"] and o["ret"][0] == "adtv" else str(o["ret"])
            if built:
                n_guard += 1
                want = [("+", released.get(g))]
                ok = (held == want and not other) or (closed and not held and not other)
                desc = ("`%s` builds a %s holding %s (its Drop releases %s)%s" %
                        (f, g.split("::")[-1], fmt_effects(o["effects"]), fmt_amt(released.get(g)), " [closed/poison branch]" if closed else ""))
            else:
                ok = not held and not other
                desc = "`%s` returns %s without a guard holding %s" % (f, retname, fmt_effects(o["effects"]) if (held or other) else "nothing")
                if not ok:
                    desc = "`%s` returns %s WITHOUT a guard but still holds: %s (a failed attempt must leave the lock unchanged)" % (f, retname, fmt_effects(o["effects"]))
            ctx.ob("C04.R1", "outcome|%s|%s|guard=%s|closed=%s|net=%s" % (f, retname, built, closed, sorted((k[1], str(v)) for k, v in net.items())), ok, desc, loc=b.loc())
        ctx.ob("C04.R1", "hands-out-guard|" + f, n_guard >= 1, "`%s` has %d outcome(s) that build a %s" % (f, n_guard, g.split("::")[-1]), loc=b.loc(), nontrivial=False)
    # into_inner takes the whole capacity
    for f, semfield in ((M + "Mutex::into_inner", M + "Mutex.semaphore"), (R + "RwLock::into_inner", R + "RwLock.semaphore")):
        b = ctx.body(f, "C04.R1")
        outs = it.summary(f)
        oks = [o for o in outs if True]
        good = bool(outs) and all(net_effects(o["effects"]).get(("field", semfield)) == [("+", ("c", caps.get(semfield)))] for o in outs)
        ctx.ob("C04.R1", "into_inner|" + f, good, "`%s` takes the full capacity %s on every returning path: %s" %
               (f, caps.get(semfield), sorted(set(fmt_effects(o["effects"]) for o in outs))), loc=b.loc())
    ctx.notes.append({"absint": it.stats})


def r2_holder(ctx):
    prog = ctx.prog
    allowed = {
        M + "MutexState.holder": {M + "Mutex::lock", M + "Mutex::try_lock", GUARDS[M + "MutexGuard"]},
        R + "RwLockState.holder": {R + "RwLock::lock", R + "RwLock::try_lock", GUARDS[R + "RwLockReadGuard"], GUARDS[R + "RwLockWriteGuard"]},
    }
    for field, allow in allowed.items():
        w = kinds.writers_of_field(prog, field, crates={"shuttle_std"}, kinds=("assign", "call_dst"))
        ctx.floor("C04.R2", "writers of " + field, len(w), 3)
        locs = {k: v[0][0].loc(v[0][1]) for k, v in w.items()}
        kinds.check_who_may(ctx, "C04.R2", "writer of " + field.split("::")[-1], set(w), allow, locs)


def r2b_holder_after_acquire(ctx):
    """The holder record is set only after the semaphore was acquired (or on the closed/poison branch, which yields instead),
    and every guard Drop clears / removes its holder entry on every path."""
    prog = ctx.prog
    SEMP = "shuttle_engine::future::batch_semaphore::BatchSemaphore::"
    ACQ = {SEMP + "acquire_blocking", SEMP + "try_acquire", kinds.SWITCH}
    for f, field in ((M + "Mutex::lock", M + "MutexState.holder"), (M + "Mutex::try_lock", M + "MutexState.holder"),
                     (R + "RwLock::lock", R + "RwLockState.holder"), (R + "RwLock::try_lock", R + "RwLockState.holder")):
        b = ctx.body(f, "C04.R2")
        ws = [s for s, st in b.assigns() if kinds.last_field(st["dst"]) == field]
        ctx.floor("C04.R2", "holder writes in " + f, len(ws), 1)
        bad = [s for s in ws if kinds.must_precede(prog, b, s, ACQ) is not None]
        ctx.ob("C04.R2", "holder-after-acquire|" + f, not bad,
               "`%s` records the holder only after the semaphore was acquired (or after yielding on the poison branch)" % f if not bad else
               "`%s` records the holder at %s before acquiring: a task that then fails to acquire is left recorded as holder" % (f, b.loc(bad[0])), loc=b.loc())
    for g, dk in GUARDS.items():
        b = prog.get(dk)
        if b is None:
            continue
        field = (M + "MutexState.holder") if "mutex" in g else (R + "RwLockState.holder")
        touches = lambda s: kinds.mentions_field(b, s, field) and not b.in_tracing(s)
        w = b.path_exists(None, b.is_return, touches)
        ctx.ob("C04.R2", "drop-updates-holder|" + g, w is None, "Drop of `%s` updates the holder record on every path" % g.split("::")[-1], loc=b.loc())


A = "shuttle_std::sync::atomic::Atomic"
OPS = [A + "::load", A + "::store", A + "::swap", A + "::fetch_update"]
TOUCH = set(OPS) | {A + "::new", A + "::get_mut", A + "::into_inner", A + "::raw_load"}


def r3_atomics(ctx):
    prog = ctx.prog
    field = A + ".inner"
    # K1: who touches Atomic.inner
    touch = {}
    for b in prog.all_bodies({"shuttle_std"}):
        for s in b.sites():
            if kinds.mentions_field(b, s, field):
                touch.setdefault(kinds.root_fn(prog, b.nkey), (b, s))
            st = b.at(s)
            if st.get("k") == "assign" and st["rv"]["k"] == "aggr" and st["rv"].get("ak") == "adt" and norm(st["rv"]["adt"]) == A:
                touch.setdefault(kinds.root_fn(prog, b.nkey), (b, s))
    # derived Debug impl reads the field for printing only
    dbg = {k for k in touch if k.endswith("core::fmt::Debug>::fmt")}
    ctx.floor("C04.R3", "functions touching Atomic.inner", len(touch), 8)
    kinds.check_who_may(ctx, "C04.R3", "function touching Atomic.inner", set(touch) - dbg, TOUCH,
                        {k: v[0].loc(v[1]) for k, v in touch.items()})
    may_switch = kinds.may_reach_set(prog, {kinds.SWITCH})
    for op in OPS:
        b = ctx.body(op, "C04.R3")
        acc = [s for s in b.sites() if kinds.mentions_field(b, s, field)]
        # an operation expressed through other operations (`swap = load; store`) is several steps: each of them starts with
        # its own choice point, so another task's write can land in between
        ops_reach = kinds.may_reach_set(prog, set(OPS))
        deleg = [s for s, t in b.calls() if (b.callees_of_call(t) & ops_reach) - {op}]
        two = next((d for d in deleg if b.path_exists(d, lambda x: x in set(deleg)) is not None), None)
        ctx.ob("C04.R3", "single-step|" + op, two is None and not (deleg and acc),
               "`%s` is one atomic step: it does not chain several atomic operations (%d delegation site(s))" % (op, len(deleg)) if two is None and not (deleg and acc) else
               "`%s` is composed of several atomic operations (first at %s): every one of them begins with its own choice point, so the "
               "read and the write halves can be separated by another task's operation" % (op, b.loc(two or deleg[0])), loc=b.loc())
        if deleg and not acc:
            continue
        if not ctx.floor("C04.R3", "accesses of inner in " + op, len(acc), 1):
            continue
        # K2 a choice point dominates every access
        bad = [s for s in acc if kinds.must_precede(prog, b, s, {kinds.SWITCH}) is not None]
        ctx.ob("C04.R3", "switch-before-access|" + op, not bad,
               "every path to an access of `inner` in `%s` passes through thread::switch (%d access sites)" % (op, len(acc)) if not bad else
               "`%s` reaches `inner` at %s without a preceding thread::switch" % (op, b.loc(bad[0])), loc=b.loc(acc[0]))
        # K9 no choice point between two accesses
        viol = None
        accset = set(acc)
        for a in acc:
            for s in b.reach_sites(a):
                if s in accset or not b.is_term(s):
                    continue
                t = b.term(s.bb)
                if t["k"] != "call":
                    continue
                cs = b.callees_of_call(t)
                if cs & may_switch:
                    # is another access reachable after this call?
                    if b.path_exists(s, lambda x: x in accset) is not None:
                        viol = (s, sorted(cs & may_switch)[0])
                        break
            if viol:
                break
        ctx.ob("C04.R3", "atomic-window|" + op, viol is None,
               "no call that may reach a choice point lies between two accesses of `inner` in `%s`" % op if viol is None else
               "`%s` may yield (via `%s`) at %s between two accesses of `inner` — the operation is not one step" % (op, viol[1], b.loc(viol[0])),
               loc=b.loc(acc[0]))
    # every public atomic method performs at most one Atomic operation per path
    opset = set(OPS)
    n = 0
    closure_ops = kinds.may_reach_set(prog, opset)
    for b in prog.all_bodies({"shuttle_std"}):
        if not b.nkey.startswith("shuttle_std::sync::atomic::") or b.nkey.startswith(A + "::") or b.parent:
            continue
        if b.kind not in ("AssocFn", "Fn"):
            continue
        sites = [s for s, t in b.calls() if b.callees_of_call(t) & closure_ops]
        if not sites:
            continue
        n += 1
        two = None
        ss = set(sites)
        for s in sites:
            w = b.path_exists(s, lambda x: x in ss)
            if w is not None:
                two = (s, w)
                break
        ctx.ob("C04.R3", "one-op|" + b.nkey, two is None,
               "`%s` performs at most one Atomic operation on every path" % b.nkey if two is None else
               "`%s` performs two Atomic operations on one path (%s then %s): not indivisible" % (b.nkey, b.loc(two[0]), b.loc(two[1])),
               loc=b.loc(sites[0]))
    ctx.floor("C04.R3", "public atomic methods delegating to an Atomic operation", n, 150)


def r4_poison(ctx):
    prog = ctx.prog
    rel = ctx.body("shuttle_engine::future::batch_semaphore::BatchSemaphore::release", "C04.R4")
    ss = [s for s, t in rel.calls() if "shuttle_engine::runtime::execution::ExecutionState::should_stop" in rel.callees_of_call(t, passed=False)]
    if not ctx.floor("C04.R4", "should_stop() test in release", len(ss), 1):
        return
    br = kinds.bool_branch(rel, ss[0])
    if br is None:
        ctx.ob("C04.R4", "branch", False, "the result of should_stop() does not control a branch in release", loc=rel.loc(ss[0]))
        return
    tb = br[0]
    start = Site(tb, 0)
    pa_rel = {"shuttle_engine::future::batch_semaphore::PermitsAvailable::release"}
    w = rel.path_exists(start, rel.is_return, lambda s: prog.site_calls(rel, s, pa_rel), start_inclusive=True)
    ctx.ob("C04.R4", "permits-returned", w is None, "panicking branch of release: every path returns the permits (PermitsAvailable::release)", loc=rel.loc(ss[0]))
    closed_w = lambda s: rel.at(s).get("k") == "assign" and kinds.last_field(rel.at(s)["dst"]) == "shuttle_engine::future::batch_semaphore::BatchSemaphoreState.closed"
    w = rel.path_exists(start, rel.is_return, closed_w, start_inclusive=True)
    ctx.ob("C04.R4", "closed-set", w is None, "panicking branch of release: every path sets `closed`", loc=rel.loc(ss[0]))
    w = rel.path_exists(start, rel.is_return, lambda s: prog.site_calls(rel, s, {"alloc::collections::vec_deque::VecDeque::clear"}), start_inclusive=True)
    ctx.ob("C04.R4", "queue-cleared", w is None, "panicking branch of release: every path clears the waiter queue", loc=rel.loc(ss[0]))
    unb = kinds.may_reach_set(prog, {"shuttle_engine::runtime::task::Task::unblock", "shuttle_engine::runtime::task::Task::wake"})
    reach = rel.reach_sites(start, start_inclusive=True)
    bad = [s for s in reach if rel.is_term(s) and rel.term(s.bb)["k"] == "call" and (rel.callees_of_call(rel.term(s.bb)) & unb)]
    ctx.ob("C04.R4", "nobody-unblocked", not bad, "panicking branch of release unblocks no task" if not bad else
           "panicking branch of release may unblock a task at %s" % rel.loc(bad[0]), loc=rel.loc(ss[0]))


# functions that may keep a RefCell borrow across a choice point, one reason per line
BORROW_OK = {
    "shuttle_std::sync::mutex::Mutex::into_inner": "consumes the Mutex by value: no other task can hold a reference to it",
    "shuttle_std::sync::rwlock::RwLock::into_inner": "consumes the RwLock by value: no other task can hold a reference to it",
}


def r5_no_borrow_across_choice_point(ctx):
    """lock/read/write/try_* "return only when that is true / succeed exactly when the lock is available": the primitives are `Sync` on the
    argument that their RefCell bookkeeping is never borrowed while another task can run.  A borrow that is still alive at a call that may
    reach thread::switch lets the scheduler run a task whose next touch of the same primitive panics with `already borrowed`."""
    from engine import borrows
    borrows.rule_no_guard_across_choice_point(ctx, "C04.R5", {"shuttle_std", "shuttle_engine", "shuttle"}, BORROW_OK, 60)


RULES = [("C04.R1", r1_accounting), ("C04.R2", r2_holder), ("C04.R2", r2b_holder_after_acquire), ("C04.R3", r3_atomics), ("C04.R4", r4_poison),
         ("C04.R5", r5_no_borrow_across_choice_point)]
