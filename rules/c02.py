"""C02 — a choice point precedes every visible operation (necessary condition stated in the source:
`thread::switch()` "should be called *before* any visible operation"), over the complete primitive API."""
import re

from engine import kinds
from engine.facts import Site, Slicer, norm, operand_local, control_deps, last_field
from engine.slicing import FlowSlicer

CRATES = {"shuttle_engine", "shuttle_std", "shuttle"}
EXPLANATION = (
    "Static decision of the necessary condition of C02 for the whole primitive API instead of for sampled programs. "
    "Universe: every externally reachable function/method and every Drop/Clone/Future::poll/Iterator::next impl of "
    "shuttle_std::{sync,thread,future} and shuttle_engine::{future,thread_support}. A *shared access* is a call of a task "
    "state transition (Task::block/unblock/sleep/wake/park/unpark/detach/abort/set_waiter/finish, reads of another task's "
    "finished()), of ExecutionState::{add_task,init_storage}, or an access (RefCell borrow, Cell, std Mutex lock, std "
    "atomic) to interior-mutable state reached through a field of a primitive. (R1) on every path from a universe "
    "function's entry to its first shared access there is a call that must reach thread::switch (callee summaries, "
    "closures run where passed, drop edges); exemptions are table lines with the reason given in the source (commuting "
    "blocking steps, statically exclusive receivers, debug aids). (R3) the guards of the two double-yield optimisations "
    "depend on exactly the commuting condition (fairness/never_polled/will-succeed; waiters.len()/bound). (R4) the pre-exit "
    "choice point of a task is guarded by exit_current_truncates_execution and every spawn path has it.")
NOT_DECIDED = ("that the exposed choice tree reaches every sequentially consistent outcome of every program (existential over "
               "programs); commutativity claims of the table entries are taken from the source comments")
ASSUMPTIONS = ["closures are run where they are passed (ExecutionState::with, LocalKey::with, Option::map, …)",
               "operations of the scheduler-internal runtime (ExecutionState) are not visible operations themselves"]

T = "shuttle_engine::runtime::task::Task::"
EFFECTS = {T + m for m in ("block", "unblock", "sleep", "wake", "park", "unpark", "detach", "abort", "set_waiter", "finish",
                           "sleep_unless_woken", "take_waiter", "finished")}
EFFECTS |= {"shuttle_engine::runtime::execution::ExecutionState::add_task",
            "shuttle_engine::runtime::execution::ExecutionState::init_storage",
            "shuttle_engine::runtime::execution::ExecutionState::get_storage"}
INTERIOR_RE = re.compile(
    r"^(core::cell::RefCell::(borrow|borrow_mut|try_borrow|try_borrow_mut|replace|take)|core::cell::Cell::(get|set|replace|take|swap)|"
    r"std::sync::poison::mutex::Mutex::(lock|try_lock)|core::sync::atomic::Atomic[A-Za-z0-9]*::[a-z_]+|core::sync::atomic::Atomic::[a-z_]+)$")
SCOPE_RE = re.compile(r"^<?(shuttle_std::(sync|thread|future)|shuttle_engine::(future|thread_support|hint))(::|\b)")
STORE_RE = re.compile(r"^(alloc::boxed::Box::(new|pin)|alloc::rc::Rc::new|alloc::sync::Arc::new|core::mem::transmute|"
                      r"shuttle_engine::runtime::execution::ExecutionState::spawn_|shuttle_engine::runtime::task::Task::from_|"
                      r"shuttle_std::thread::spawn_named|shuttle_std::future::Wrapper::new)")
TRAIT_METHODS = ("core::ops::drop::Drop>::drop", "core::clone::Clone>::clone", "core::future::future::Future>::poll",
                 "core::iter::traits::iterator::Iterator>::next")

# ---- exemptions: key -> reason (one line each; confirmed by reading the source) ----------------------
EXEMPT = {
    # double-yield optimisations documented in the source (guards checked by R3)
    "<shuttle_engine::future::batch_semaphore::Acquire as core::future::future::Future>::poll":
        "reads will_succeed before the conditional switch: pre-operation switch is skipped only for an unfair semaphore that will block (source comment); guard checked by C02.R3",
    "shuttle_std::sync::barrier::Barrier::wait":
        "reads waiters.len() before the conditional switch: skipped only when the caller will block (unordered waiter set); guard checked by C02.R3",
    "shuttle_std::thread::JoinHandle::join":
        "reads target.finished() first and switches only if finished: joining an unfinished target blocks, and blocking commutes (source structure); block=>yield checked by C03.R3",
    "shuttle_std::sync::mutex::Mutex::lock":
        "before acquiring, reads is_closed() (poison flag, set only while a panic ends the execution) and whether the *caller itself* is the holder (re-entrancy "
        "diagnosis) — neither can be changed by another task's visible operation; the acquisition itself switches inside Acquire::poll",
    "shuttle_std::sync::rwlock::RwLock::lock": "as Mutex::lock (re-entrancy diagnosis + poison flag before the acquisition's own choice point)",
    "shuttle_std::thread::park":
        "the token check only decides whether the owner blocks; if it blocks it yields; ParkState is written by others only through unpark, after which the owner continues in both orders",
    "shuttle_std::thread::park_timeout": "forwards to park",
    "shuttle_std::thread::scope": "epilogue blocks the scope owner until the last scoped thread unblocks it; block=>yield (C03.R3); the counter is only observed by reaching zero",
    "shuttle_std::thread::Scope::spawn": "increments the scoped-thread counter before spawn_thread's own choice point; the counter is observed only by reaching zero in the epilogue",
    "shuttle_std::sync::condvar::Condvar::wait": "the choice point is the guard's release (MutexGuard drop -> BatchSemaphore::release switches first); found through the drop edge",
    "<shuttle_std::sync::mpsc::Sender as core::clone::Clone>::clone": "increments known_senders: a count that is only observed by reaching zero, which the cloner's own handle prevents",
    "<shuttle_std::sync::mpsc::SyncSender as core::clone::Clone>::clone": "as Sender::clone",
    "shuttle_engine::future::batch_semaphore::BatchSemaphore::acquire": "creates the Acquire future only (no switch here; switch is triggered on polling — source comment)",
    "shuttle_engine::future::batch_semaphore::BatchSemaphore::close_no_scheduling_point": "documented variant without a scheduling point for callers that already yielded (tokio drop_sender)",
    "shuttle_engine::future::batch_semaphore::BatchSemaphore::upgrade": "polls the new Acquire (switch inside poll) then releases (switch inside release)",
    "shuttle_engine::thread_support::thread_fn": "runs the task body; its first shared access is the task's own exit protocol, guarded by the pre-exit switch (C02.R4)",
    "shuttle_engine::thread_support::LocalKey::with": "thread-local storage of the current task: visible only to its owner",
    "shuttle_engine::thread_support::LocalKey::try_with": "thread-local storage of the current task: visible only to its owner",
    "shuttle_engine::future::block_on": "polls the future (its operations have their own choice points); sleeps only after Pending and then yields (C17.R1)",
    "shuttle_std::future::block_on": "as engine::future::block_on",
    "<shuttle_std::future::Wrapper as core::future::future::Future>::poll": "executor-internal wrapper polled by the task's own poll loop; publishes the result after the user's future completed",
    "<shuttle_std::future::JoinHandle as core::future::future::Future>::poll": "reads the result slot / registers the waker: the joiner is polled from a poll loop that yields after Pending (C17.R1)",
    "<shuttle_engine::future::yield_now::{closure#0}::YieldNow as core::future::future::Future>::poll": "requests a yield; the poll loop performs the switch",
    "<shuttle_std::future::yield_now::{closure#0}::YieldNow as core::future::future::Future>::poll": "requests a yield; the poll loop performs the switch",
    "shuttle_std::thread::yield_now": "wakes itself and requests a yield, then switches",
    "shuttle_engine::thread_support::yield_now": "wakes itself and requests a yield, then switches",
    "shuttle_std::future::spawn": "creates the join-handle cells, then ExecutionState::spawn_future switches before the task is added",
    "shuttle_std::future::spawn_local": "as future::spawn",
}
EXEMPT["<shuttle_std::future::JoinHandle as core::ops::drop::Drop>::drop"] = (
    "detach only changes when the runtime stops waiting for the task (detached tasks may be cut off); no task observes the flag")
# functions of the table that implement a documented choice-point protocol of their own: a call to them counts as
# the callee's choice point for the caller (they are checked themselves by R3 / C03.R3 / C17.R1)
PROTOCOL = {
    "<shuttle_engine::future::batch_semaphore::Acquire as core::future::future::Future>::poll",
    "shuttle_std::sync::barrier::Barrier::wait", "shuttle_std::thread::JoinHandle::join",
    "shuttle_std::sync::mutex::Mutex::lock", "shuttle_std::sync::rwlock::RwLock::lock",
    "shuttle_std::sync::condvar::Condvar::wait", "shuttle_engine::future::block_on", "shuttle_std::future::block_on",
    "shuttle_engine::future::batch_semaphore::BatchSemaphore::upgrade", "shuttle_std::thread::park",
}
# private helpers whose interior access is not a visible operation
INTERNAL_EXEMPT = {
    "shuttle_engine::future::batch_semaphore::BatchSemaphore::init_object_id":
        "lazily assigns the annotation object id of a const-constructed semaphore; never read by a modelled operation",
    "shuttle_engine::future::batch_semaphore::BatchSemaphore::acquire": EXEMPT["shuttle_engine::future::batch_semaphore::BatchSemaphore::acquire"],
    "shuttle_engine::future::batch_semaphore::Acquire::new": "builds the future (waiter records the creating task id and clock); nothing shared is touched until poll",
    "shuttle_engine::future::batch_semaphore::Waiter::new": "as Acquire::new",
}
EXEMPT_PATTERNS = [
    (re.compile(r"::(get_mut|into_inner)$"), "receiver is `&mut self`/`self`: statically exclusive access (witness W3)"),
    (re.compile(r"core::fmt::(Debug|Display)>::fmt$"), "formatting aid, documented non-scheduling"),
    (re.compile(r"::raw_load$"), "documented non-scheduling debug aid"),
    (re.compile(r"::(new|new_internal|const_new|const_new_with_signature|new_with_signature|default|with_name_and_kind|signature)$"), "constructor / metadata: object not yet shared"),
    (re.compile(r"core::default::Default>::default$|core::convert::From>::from$"), "constructor"),
    (re.compile(r"annotations::WithName>::with_name_and_kind$"), "annotation metadata"),
]


def is_universe(b):
    if b.parent or b.kind not in ("Fn", "AssocFn"):
        return False
    if not SCOPE_RE.search(b.nkey):
        return False
    if "::tests::" in b.nkey or "__CALLSITE" in b.nkey:
        return False
    if b.d.get("reachable") and (b.d.get("pub") or b.d.get("impl_trait") is None):
        if b.d.get("pub"):
            return True
    if any(b.nkey.endswith(m) for m in TRAIT_METHODS):
        return True
    return False


def _recv_field_in_scope(prog, body, sl, t):
    """Is the receiver of an interior-mutability call reached through a field of an ADT defined in the scope modules?"""
    if not t.get("args"):
        return None
    labels, _ = sl.slice_operand(t["args"][0])
    for l in labels:
        if l.startswith("field:"):
            f = l[6:]
            if SCOPE_RE.search(f):
                return f
    return None


class Touch:
    """Computes, per function, whether a shared access can be reached from the entry without a prior
    must-switch call (`unguarded`), by fixed point over the call graph."""

    def __init__(self, prog):
        self.prog = prog
        self.must_switch = prog.must_call({kinds.SWITCH}, invoke_closure_callees=ICC) | {kinds.SWITCH}
        self.direct = {}      # nkey -> [(site, what)] direct shared accesses
        self.slicers = {}
        self.unguarded = {}   # nkey -> (site, what) witness
        self._compute()

    def _tracing_only(self, b, s, t, depth=0):
        """A RefCell borrow whose guard is used only to feed tracing macros (and is then dropped) is a debug read.
        Uses are followed through unnamed temporaries: `&guard` -> `Deref::deref` -> `&(*g).field` [in trace!]."""
        if t["dst"].get("p") or t["dst"]["l"] == 0:
            return False
        return self._only_tracing_uses(b, t["dst"]["l"], s, 0)

    def _only_tracing_uses(self, b, g, s, depth):
        if depth > 5:
            return False

        def reassigns(x):
            st = b.at(x)
            if x == s:
                return False
            return st.get("k") in ("assign", "call") and "dst" in st and st["dst"]["l"] == g and not st["dst"].get("p")

        for x in sorted(b.reach_sites(s, is_avoid=reassigns)):
            st = b.at(x)
            if x == s or reassigns(x):
                continue
            used = set()
            for op in b.operands_of(st):
                l = operand_local(op)
                if l is not None:
                    used.add(l)
            if st.get("k") == "assign" and "pl" in st["rv"]:
                used.add(st["rv"]["pl"]["l"])
            if st.get("k") == "assign" and st["dst"].get("p"):
                used.add(st["dst"]["l"])
            if st.get("k") == "drop":
                continue
            if g not in used:
                continue
            if b.in_tracing(x):
                continue
            if st.get("k") == "call" and b.callees_of_call(st, passed=False) & {"core::mem::drop"}:
                continue
            # flows into an unnamed temporary that itself only feeds tracing
            if st.get("k") in ("assign", "call") and "dst" in st and not st["dst"].get("p"):
                d = st["dst"]["l"]
                if d != 0 and b.local_name(d) is None and d != g:
                    if st.get("k") == "call" and not any(n.endswith("Deref>::deref") or n.endswith("Deref::deref") or n.endswith("DerefMut>::deref_mut")
                                                         for n in b.callees_of_call(st, passed=False)):
                        return False
                    if self._only_tracing_uses(b, d, x, depth + 1):
                        continue
            return False
        return True

    def direct_sites(self, b):
        if b.nkey in self.direct:
            return self.direct[b.nkey]
        out = []
        sl = None
        for s, t in b.calls():
            if b.in_tracing(s):
                continue
            names = b.callees_of_call(t, passed=False)
            eff = names & EFFECTS
            if eff:
                out.append((s, sorted(eff)[0].split("::")[-1] + "()"))
                continue
            if any(INTERIOR_RE.search(n) for n in names):
                if sl is None:
                    sl = Slicer(b, alias_defs=False)
                f = _recv_field_in_scope(self.prog, b, sl, t)
                is_borrow = any(n.startswith("core::cell::RefCell::") for n in names)
                if f and not (is_borrow and self._tracing_only(b, s, t)):
                    out.append((s, "access to %s" % f.split("::")[-1]))
        self.direct[b.nkey] = out
        return out

    def _compute(self):
        prog = self.prog
        # only the primitive modules are analysed; the scheduler-internal runtime (ExecutionState, switch itself)
        # is opaque except for the task-state transitions listed in EFFECTS
        bodies = [b for b in prog.all_bodies(CRATES) if b.kind in ("Fn", "AssocFn", "Closure") and len(prog.by_norm[b.nkey]) == 1
                  and SCOPE_RE.search(b.nkey) and "__CALLSITE" not in b.nkey]
        ung = {}
        changed = True
        while changed:
            changed = False
            for b in bodies:
                if b.nkey in ung:
                    continue
                direct = dict((s, w) for s, w in self.direct_sites(b))

                def is_touch(s, b=b, direct=direct):
                    if s in direct:
                        return True
                    if not b.is_term(s):
                        return False
                    t = b.term(s.bb)
                    if t["k"] == "call":
                        if b.in_tracing(s):
                            return False
                        cs = b.callees_of_call(t, passed=False)
                        if not any(STORE_RE.search(c) for c in cs):
                            cs = cs | b.passed_callables(t)      # closures run by the callee
                    elif t["k"] == "drop":
                        cs = b.drop_callees(t)
                    else:
                        return False
                    return any(c in ung and c not in PROTOCOL and c not in INTERNAL_EXEMPT for c in cs)

                def is_guard(s, b=b):
                    # exempt functions run their own (documented) choice-point protocol
                    return prog.site_calls(b, s, self.must_switch | PROTOCOL, icc=ICC)

                # a guard at the same site wins only if the callee switches *before* touching: callee summaries decide that
                w = b.path_exists(None, is_touch, is_guard)
                if w is not None:
                    what = direct.get(w)
                    if what is None:
                        t = b.term(w.bb)
                        cs = b.callees_of_call(t) if t["k"] == "call" else b.drop_callees(t)
                        c = (sorted(c for c in cs if c in ung) or ["?"])[0]
                        what = "via `%s` (%s)" % (c, ung[c][1] if c in ung else "?")
                    ung[b.nkey] = (w, what)
                    changed = True
        self.unguarded = ung


ICC = {"shuttle_engine::runtime::execution::ExecutionState::with", "shuttle_engine::runtime::execution::ExecutionState::try_with",
       "std::thread::local::LocalKey::with", "scoped_tls::ScopedKey::with", "core::option::Option::map"}


def r1_choice_point_first(ctx):
    prog = ctx.prog
    tc = Touch(prog)
    uni = sorted((b for b in prog.all_bodies(CRATES) if is_universe(b)), key=lambda b: b.nkey)
    ctx.floor("C02.R1", "universe of primitive API functions", len(uni), 300)
    n_ops = 0
    for b in uni:
        touches_any = b.nkey in tc.unguarded or any(True for _ in tc.direct_sites(b)) or bool(prog.may_reach([b.nkey]) & (EFFECTS | {kinds.SWITCH}))
        if not touches_any:
            continue
        n_ops += 1
        w = tc.unguarded.get(b.nkey)
        if w is None:
            ctx.ob("C02.R1", "switch-first|" + b.nkey, True, "`%s`: every path to its first shared access passes through a choice point" % b.nkey, loc=b.loc())
            continue
        reason = EXEMPT.get(b.nkey)
        if reason is None:
            for pat, r in EXEMPT_PATTERNS:
                if pat.search(b.nkey):
                    reason = r
                    break
        if reason is not None:
            ctx.ob("C02.R1", "exempt|" + b.nkey, True, "`%s` reaches %s before a choice point — table: %s" % (b.nkey, w[1], reason), loc=b.loc(w[0]), nontrivial=False)
            continue
        ctx.ob("C02.R1", "switch-first|" + b.nkey, False,
               "`%s` performs a shared access (%s) at %s with no choice point before it on some path: interleavings in which another "
               "task runs between the caller's previous operation and this one are never offered to the scheduler" % (b.nkey, w[1], b.loc(w[0])),
               loc=b.loc(w[0]))
    ctx.floor("C02.R1", "visible operations classified", n_ops, 150)
    # stale table lines are an error too (the table must describe the current tree)
    for k in sorted(EXEMPT):
        if prog.get(k) is None:
            ctx.ob("C02.R1", "table-stale|" + k, False, "exemption table names `%s`, which no longer exists — rule table not established" % k, nontrivial=False)


def r3_guards(ctx):
    prog = ctx.prog
    P = "<shuttle_engine::future::batch_semaphore::Acquire as core::future::future::Future>::poll"
    b = ctx.body(P, "C02.R3")
    sl = Slicer(b, control=True)
    cd = control_deps(b)
    sw = [s for s, t in b.calls() if kinds.SWITCH in b.callees_of_call(t, passed=False)]
    if ctx.floor("C02.R3", "conditional switch in Acquire::poll", len(sw), 1):
        # flow-sensitive: a value that is still computed but no longer part of the condition (`let x = fairness == ..;` left unused) does not count
        labs = FlowSlicer(b).guard_labels(sw[0])
        need = {"field:shuttle_engine::future::batch_semaphore::BatchSemaphore.fairness": "the semaphore's fairness",
                "field:shuttle_engine::future::batch_semaphore::Acquire.never_polled": "never_polled",
                "call:shuttle_engine::future::batch_semaphore::BatchSemaphore::available_permits": "available_permits()",
                "call:shuttle_engine::future::batch_semaphore::BatchSemaphore::is_closed": "is_closed()",
                "field:shuttle_engine::future::batch_semaphore::Waiter.has_permits": "waiter.has_permits"}
        for lab, name in need.items():
            ctx.ob("C02.R3", "poll-guard|" + name, lab in labs,
                   "the guard of the pre-operation switch in Acquire::poll depends on %s" % name if lab in labs else
                   "the guard of the pre-operation switch in Acquire::poll no longer depends on %s: the double-yield optimisation would also skip "
                   "the choice point where blocking does not commute" % name, loc=b.loc(sw[0]))
    W = "shuttle_std::sync::barrier::Barrier::wait"
    b = ctx.body(W, "C02.R3")
    sl = Slicer(b, control=True)
    cd = control_deps(b)
    sws = [s for s, t in b.calls() if kinds.SWITCH in b.callees_of_call(t, passed=False)]
    if ctx.floor("C02.R3", "switch calls in Barrier::wait", len(sws), 2):
        first = sorted(sws, key=lambda s: len(b.dom.get(s.bb, ())))[0]
        labs = set()
        for swb in cd.get(first.bb, ()):
            l, _ = sl.slice_operand(b.term(swb)["discr"])
            labs |= l
        for lab, name in (("field:shuttle_std::sync::barrier::BarrierState.waiters", "waiters.len()"), ("field:shuttle_std::sync::barrier::BarrierState.bound", "bound")):
            ctx.ob("C02.R3", "barrier-guard|" + name, lab in labs, "the guard of the pre-operation switch in Barrier::wait depends on %s" % name, loc=b.loc(first))


def _expand(prog, labels):
    """Add the callees of closures named in `call:` labels (the closure runs where it is passed)."""
    out = set(labels)
    for l in labels:
        if l.startswith("call:"):
            cb = prog.get(l[5:])
            if cb is not None and cb.parent:
                out |= {"call:" + c for c in prog.callgraph.get(cb.nkey, ())}
    return out


def r4_task_exit(ctx):
    prog = ctx.prog
    TF = "shuttle_engine::thread_support::thread_fn"
    TRUNC = "shuttle_engine::runtime::execution::ExecutionState::exit_current_truncates_execution"
    b = ctx.body(TF, "C02.R4")
    sl = Slicer(b, control=True)
    cd = control_deps(b)
    sws = [s for s, t in b.calls() if kinds.SWITCH in b.callees_of_call(t, passed=False)]
    if ctx.floor("C02.R4", "pre-exit switch in thread_fn", len(sws), 1):
        labs = set()
        for swb in cd.get(sws[0].bb, ()):
            l, _ = sl.slice_operand(b.term(swb)["discr"])
            labs |= l
        labs = _expand(prog, labs)
        ok = any(TRUNC in l for l in labs) and "arg:2" in labs
        ctx.ob("C02.R4", "exit-switch-guard", ok, "thread_fn's pre-exit switch is guarded by switch_before_exit && exit_current_truncates_execution()", loc=b.loc(sws[0]))
        # it precedes the publication of the result
        pub = [s for s, t in b.calls() if T + "take_waiter" in prog.may_reach(list(b.callees_of_call(t)))]
    # callers pass switch_before_exit = true, except Scope::spawn whose closure has the same guarded switch
    callers = kinds.callers(prog, "shuttle_std::thread::spawn_named_unchecked")
    ctx.floor("C02.R4", "callers of spawn_named_unchecked", len(callers), 2)
    for k, sites in sorted(callers.items()):
        for cb, s in sites:
            t = cb.term(s.bb)
            v = kinds.operand_const(cb, t["args"][3])
            if v == 1:
                ctx.ob("C02.R4", "switch_before_exit|" + k, True, "`%s` spawns with switch_before_exit = true" % k, loc=cb.loc(s))
            else:
                # the closure handed over must itself contain the guarded switch
                cl = [c for c in cb.passed_callables(t)]
                okc = False
                for c in cl:
                    cbody = prog.get(c)
                    if cbody is None:
                        continue
                    cs = [x for x, tt in cbody.calls() if kinds.SWITCH in cbody.callees_of_call(tt, passed=False)]
                    if cs:
                        csl = Slicer(cbody, control=True)
                        ccd = control_deps(cbody)
                        ll = set()
                        for swb in ccd.get(cs[0].bb, ()):
                            l, _ = csl.slice_operand(cbody.term(swb)["discr"])
                            ll |= l
                        if any(TRUNC in l for l in _expand(prog, ll)):
                            okc = True
                ctx.ob("C02.R4", "switch_before_exit|" + k, okc,
                       "`%s` spawns with switch_before_exit = false and its own closure performs the guarded pre-exit switch" % k if okc else
                       "`%s` spawns with switch_before_exit = %s and no guarded pre-exit switch of its own: the exit of the task is not a choice point" % (k, v),
                       loc=cb.loc(s))
    # main thread
    rc = ctx.closure("shuttle_engine::runtime::execution::Execution::run", TF, "C02.R4", "thread_fn")
    if True:
        cs = [(s, t) for s, t in rc.calls() if TF in rc.callees_of_call(t, passed=False)]
        if ctx.floor("C02.R4", "thread_fn call of the main task", len(cs), 1):
            v = kinds.operand_const(rc, cs[0][1]["args"][1])
            ctx.ob("C02.R4", "switch_before_exit|main", v == 1, "the main task runs thread_fn with switch_before_exit = true", loc=rc.loc(cs[0][0]))


RULES = [("C02.R1", r1_choice_point_first), ("C02.R3", r3_guards), ("C02.R4", r4_task_exit)]
