"""C06 — mpsc (narrow): FIFO ends, disconnection re-check after wake-up, try_send never blocks, hand-off wake-ups,
sibling agreement of the three Drop impls and the two Clone impls."""
import re

from engine import kinds
from engine.facts import Site, Slicer, norm, operand_local, control_deps, last_field
from engine.slicing import FlowSlicer, expand_closure_labels
from rules.c18 import _calls_on_field
from rules.c15 import family, calls_in
from rules.c05 import _with_sites, in_cycle

CRATES = {"shuttle_engine", "shuttle_std"}
EXPLANATION = (
    "Static decision of necessary conditions of C06 on shuttle_std::sync::mpsc. FIFO ends: messages are appended with push and "
    "taken with remove(0) (constant index), the waiter lists likewise (push / remove(0) / first). On the blocking path the "
    "disconnection test is repeated after the wake-up before the queue is touched. In send_internal the self-block is control "
    "dependent on the can_block parameter, and try_send passes the constant false (it never blocks). A successful send unblocks "
    "the first waiting receiver, a successful receive the first waiting sender. The three Drop impls decrement their count and, "
    "on the branch where it reaches zero, unblock inside the loop over the waiting peers; both Clone impls increment known_senders. "
    "Capacity (CAP): the predicate whose answer guards TrySendError::Full / blocking lets a sender proceed only on the `not full` edge "
    "of a comparison of messages.len() with the bound and only on the edge where waiting_senders.is_empty() was evaluated and true, "
    "on every path (so also for try_send): a woken sender pushes without re-checking, its slot is reserved by that clause. "
    "(choice point first: C02; block => yield: C03.R3; clock edges: C15.)")
NOT_DECIDED = "capacity arithmetic (>= max(bound,1)), exactly-once delivery and ordering over all histories"
ASSUMPTIONS = ["closures are run where they are passed"]

M = "shuttle_std::sync::mpsc::"
ST = M + "ChannelState."
T = "shuttle_engine::runtime::task::"
SEND = M + "Channel::send_internal"
RECV = M + "Channel::recv_internal"


def _const_arg(b, t, i):
    return kinds.operand_const(b, t["args"][i]) if len(t["args"]) > i else None


def fifo(ctx):
    prog = ctx.prog
    sb = ctx.body(SEND, "C06.FIFO")
    rb = ctx.body(RECV, "C06.FIFO")
    push = calls_in(prog, SEND, lambda c: c.endswith("SmallVec::push"))
    msg_push = [(b, s, t) for b, s, t in push if ("field:" + ST + "messages") in expand_closure_labels(prog, FlowSlicer(b).operand_labels(t["args"][0], s))]
    ctx.ob("C06.FIFO", "send-appends", bool(msg_push), "send appends the message at the back of `messages` (SmallVec::push)", loc=sb.loc())
    ins = calls_in(prog, SEND, lambda c: c.endswith("SmallVec::insert"))
    ctx.ob("C06.FIFO", "send-never-inserts", not ins, "send never inserts at another position", loc=sb.loc())
    rm = _calls_on_field(prog, rb, ST + "messages", re.compile(r"SmallVec::remove$"))
    ok = bool(rm) and all(_const_arg(rb, t, 1) == 0 for s, t in rm)
    ctx.ob("C06.FIFO", "recv-takes-front", ok, "recv takes messages.remove(0)" if ok else "recv does not take the message at the constant front index 0", loc=rb.loc())
    other_take = _calls_on_field(prog, rb, ST + "messages", re.compile(r"SmallVec::(pop|swap_remove|drain)$"))
    ctx.ob("C06.FIFO", "recv-only-front", not other_take, "recv never takes a message from another position", loc=rb.loc())
    for body, fld, nm in ((sb, "waiting_senders", "send"), (rb, "waiting_receivers", "recv")):
        p = _calls_on_field(prog, body, ST + fld, re.compile(r"SmallVec::push$"))
        r = _calls_on_field(prog, body, ST + fld, re.compile(r"SmallVec::remove$"))
        ok = bool(p) and bool(r) and all(_const_arg(body, t, 1) == 0 for s, t in r)
        ctx.ob("C06.FIFO", "waitlist-fifo|" + fld, ok, "%s queues itself with push and leaves from the front (remove(0)) of %s" % (nm, fld), loc=body.loc())


def recheck(ctx):
    prog = ctx.prog
    for key, cnt, wl in ((SEND, "known_receivers", "waiting_senders"), (RECV, "known_senders", "waiting_receivers")):
        b = ctx.body(key, "C06.WAKE")
        blocks = [s for s in _with_sites(prog, b, T + "Task::block")]
        sws = [s for s, t in b.calls() if kinds.SWITCH in b.callees_of_call(t, passed=False)]
        rm = _calls_on_field(prog, b, ST + wl, re.compile(r"SmallVec::remove$"))
        # the post-block switch: the switch dominated by a self-block
        post = [s for s in sws if any(b.site_dominates(x, s) for x in blocks)]
        if not (ctx.floor("C06.WAKE", "post-block switch in " + key, len(post), 1) and ctx.floor("C06.WAKE", "remove(0) of %s" % wl, len(rm), 1)):
            continue
        # recv's test is `messages.is_empty() && known_senders == 0` (short-circuit): reading either operand counts
        alt = ST + "messages" if key == RECV else ST + cnt
        reads = lambda x: (kinds.mentions_field(b, x, ST + cnt) or kinds.mentions_field(b, x, alt)) and not b.in_tracing(x)
        w = b.path_exists(post[0], lambda x: x == rm[0][0], reads)
        ctx.ob("C06.WAKE", "recheck-after-wake|" + key.split("::")[-1], w is None,
               "`%s`: after being woken, %s is re-read before the waiter leaves the queue and touches the channel" % (key.split("::")[-1], cnt) if w is None else
               "`%s`: a woken waiter dequeues itself without re-checking %s: a waiter released by a disconnect would proceed as if it had been served" % (key.split("::")[-1], cnt),
               loc=b.loc(post[0]))
    sb = prog.get(SEND)
    blocks = [s for s in _with_sites(prog, sb, T + "Task::block")]
    selfb = [s for s in blocks if ("call:shuttle_engine::runtime::execution::ExecutionState::current_mut") in
             expand_closure_labels(prog, {"call:" + c for c in sb.passed_callables(sb.term(s.bb))})]
    if ctx.floor("C06.WAKE", "self-block in send_internal", len(selfb), 1):
        labs = FlowSlicer(sb).guard_labels(selfb[0])
        ctx.ob("C06.WAKE", "block-needs-can_block", "arg:3" in labs, "the sender blocks only when its can_block parameter allows it", loc=sb.loc(selfb[0]))
    ts = ctx.body(M + "Channel::try_send", "C06.WAKE")
    cs = [(s, t) for s, t in ts.calls() if SEND in ts.callees_of_call(t, passed=False)]
    ctx.ob("C06.WAKE", "try_send-passes-false", bool(cs) and all(_const_arg(ts, t, 2) == 0 for s, t in cs), "try_send calls send_internal with can_block = false", loc=ts.loc())
    sd = ctx.body(M + "Channel::send", "C06.WAKE")
    cs = [(s, t) for s, t in sd.calls() if SEND in sd.callees_of_call(t, passed=False)]
    ctx.ob("C06.WAKE", "send-passes-true", bool(cs) and all(_const_arg(sd, t, 2) == 1 for s, t in cs), "send calls send_internal with can_block = true", loc=sd.loc())


def handoff(ctx):
    prog = ctx.prog
    for key, peers in ((SEND, "waiting_receivers"), (RECV, "waiting_senders")):
        b = prog.get(key)
        if b is None:
            continue
        fs = FlowSlicer(b)
        ub = [s for s in _with_sites(prog, b, T + "Task::unblock")]
        ok = any(("field:" + ST + peers) in fs.guard_labels(s) and any(l.endswith("::first") for l in fs.guard_labels(s)) for s in ub)
        ctx.ob("C06.HAND", "wakes-first-peer|" + key.split("::")[-1], ok,
               "`%s` unblocks the first task of %s when there is one" % (key.split("::")[-1], peers), loc=b.loc())


def _between_guard_labels(body, anchor, site):
    """Data labels of the branch conditions that lie between `anchor` and `site` and on which `site` is control dependent."""
    fs = FlowSlicer(body, control=False)
    labs = set()
    for sw in control_deps(body).get(site.bb, ()):
        ts = body.term_site(sw)
        if body.path_exists(anchor, lambda x, ts=ts: x == ts) is not None:
            labs |= fs.operand_labels(body.term(sw)["discr"], ts)
    return labs


def sender_release_chain(ctx):
    """"A blocked sender is always released when space arrives."  Two wake-ups cooperate: after taking a message out, recv wakes the first
    waiting sender; after pushing, a sender wakes the next waiting sender if there is still room.  Either may be made conditional on
    more state as long as the other stays unconditional in that respect; if recv's wake depends on how full the queue was AND the chain
    wake is skipped whenever a receiver was woken, the second of two parked senders is never released (receiver drains the queue,
    blocks, first sender pushes and wakes only the receiver, receiver takes the message out of a queue that "was not full")."""
    prog = ctx.prog
    sb = ctx.body(SEND, "C06.CHAIN")
    rb = ctx.body(RECV, "C06.CHAIN")
    pushes = []
    for b, s, t in calls_in(prog, SEND, lambda c: c.endswith("SmallVec::push")):
        if ("field:" + ST + "messages") not in expand_closure_labels(prog, FlowSlicer(b).operand_labels(t["args"][0], s)):
            continue
        if b is sb:
            pushes.append(s)
        else:       # the push sits in a closure: the anchor is the site of send_internal that runs that closure
            pushes += [x for x, tt in sb.calls() if b.nkey in sb.passed_callables(tt)]
    removes = [s for s, t in _calls_on_field(prog, rb, ST + "messages", re.compile(r"SmallVec::remove$"))]
    if not (ctx.floor("C06.CHAIN", "message push in send_internal", len(pushes), 1) and ctx.floor("C06.CHAIN", "message removal in recv_internal", len(removes), 1)):
        return
    WS, WR, MSG = "field:" + ST + "waiting_senders", "field:" + ST + "waiting_receivers", "field:" + ST + "messages"
    chain = [s for s in _with_sites(prog, sb, T + "Task::unblock") if WS in FlowSlicer(sb).guard_labels(s) and sb.path_exists(pushes[0], lambda x, s=s: x == s) is not None
             and WS in _between_guard_labels(sb, pushes[0], s)]
    rwake = [s for s in _with_sites(prog, rb, T + "Task::unblock") if rb.path_exists(removes[0], lambda x, s=s: x == s) is not None
             and WS in _between_guard_labels(rb, removes[0], s)]
    ctx.ob("C06.CHAIN", "chain-wake-present", bool(chain), "after its push a sender wakes the next waiting sender (when there is room)", loc=sb.loc())
    ctx.ob("C06.CHAIN", "recv-wakes-sender", bool(rwake), "after taking a message out recv wakes the first waiting sender", loc=rb.loc())
    if not (chain and rwake):
        return
    dep_a = WR in _between_guard_labels(sb, pushes[0], chain[0])
    dep_b = MSG in _between_guard_labels(rb, removes[0], rwake[0])
    ctx.ob("C06.CHAIN", "one-wake-up-is-unconditional", not (dep_a and dep_b),
           "the sender-release chain holds: chain wake %s on waiting_receivers, recv's wake %s on the queue length" %
           ("depends" if dep_a else "does not depend", "depends" if dep_b else "does not depend") if not (dep_a and dep_b) else
           "the chain wake after a push is skipped when a receiver was woken AND recv wakes a waiting sender only for some queue lengths: with two parked "
           "senders the second one is never released once the receiver has drained the queue", loc=rb.loc(rwake[0]))


def siblings(ctx):
    prog = ctx.prog
    drops = [("<" + M + "Sender as core::ops::drop::Drop>::drop", "known_senders", "waiting_receivers"),
             ("<" + M + "SyncSender as core::ops::drop::Drop>::drop", "known_senders", "waiting_receivers"),
             ("<" + M + "Receiver as core::ops::drop::Drop>::drop", "known_receivers", "waiting_senders")]
    for key, cnt, peers in drops:
        b = ctx.body(key, "C06.SIB")
        dec = [s for s, st in b.assigns() if st["rv"]["k"] == "binop" and st["rv"].get("op", "").startswith("Sub") and
               any(o.get("k") in ("copy", "move") and last_field(o["pl"]) == ST + cnt for o in st["rv"]["ops"])]
        ub = _with_sites(prog, b, T + "Task::unblock")
        fs = FlowSlicer(b)
        ok = bool(dec) and bool(ub) and all(in_cycle(b, s) for s in ub) and all(("field:" + ST + cnt) in fs.guard_labels(s) for s in ub)
        it = _calls_on_field(prog, b, ST + peers, re.compile(r"(iter|into_iter)$"))
        ctx.ob("C06.SIB", "last-drop-wakes-peers|" + key.split(" as ")[0].split("::")[-1], ok and bool(it),
               "dropping the last %s decrements %s and, when it reaches zero, unblocks every task of %s (loop)" % (key.split(" as ")[0].split("::")[-1], cnt, peers), loc=b.loc())
    for key in ("<" + M + "Sender as core::clone::Clone>::clone", "<" + M + "SyncSender as core::clone::Clone>::clone"):
        b = ctx.body(key, "C06.SIB")
        inc = [s for s, st in b.assigns() if st["rv"]["k"] == "binop" and st["rv"].get("op", "").startswith("Add") and
               any(o.get("k") in ("copy", "move") and last_field(o["pl"]) == ST + "known_senders" for o in st["rv"]["ops"])]
        ctx.ob("C06.SIB", "clone-counts|" + key.split(" as ")[0].split("::")[-1], bool(inc), "cloning a sender increments known_senders", loc=b.loc())
    # disconnection reads on entry
    for key, cnt in ((SEND, "known_receivers"), (RECV, "known_senders")):
        b = prog.get(key)
        errs = [s for s, st in b.assigns() if st["rv"]["k"] == "aggr" and st["rv"].get("variant") == "Disconnected"]
        fs = FlowSlicer(b)
        ok = bool(errs) and all(("field:" + ST + cnt) in fs.guard_labels(s) for s in errs)
        ctx.ob("C06.SIB", "disconnected-depends-on-count|" + key.split("::")[-1], ok, "`%s` reports Disconnected under a test of %s" % (key.split("::")[-1], cnt), loc=b.loc())


def _result_defs(b):
    """[(site, const-bool-or-None)] of the definitions of the return place of a bool function."""
    out = []
    for s in b.sites():
        st = b.at(s)
        if st.get("k") in ("assign", "call") and st.get("dst") and st["dst"]["l"] == 0 and not st["dst"].get("p"):
            v = None
            if st.get("k") == "assign" and st["rv"]["k"] == "use" and st["rv"]["ops"][0].get("k") == "const":
                v = st["rv"]["ops"][0].get("ev")
            out.append((s, v))
    return out


def capacity(ctx):
    """A parked sender does not re-check for room when it is woken: the slot that was freed for it is reserved by the clause
    `waiting_senders is not empty => every other sender must block / report Full`.  So the predicate that lets a sender proceed
    may answer `false` (= need not block) only after it has (a) compared messages.len() with the bound and (b) seen
    waiting_senders empty — for every caller, blocking or not."""
    prog = ctx.prog
    sb = ctx.body(SEND, "C06.CAP")
    # the predicate: bool-returning callee in the mpsc module whose result guards TrySendError::Full
    full = [s for s, st in sb.assigns() if st["rv"]["k"] == "aggr" and st["rv"].get("variant") == "Full"]
    if not ctx.floor("C06.CAP", "TrySendError::Full construction in send_internal", len(full), 1):
        return
    labs = FlowSlicer(sb).guard_labels(full[0])
    preds = sorted(l[5:] for l in labs if l.startswith("call:" + M))
    pb = [prog.get(p) for p in preds if prog.get(p) is not None and prog.get(p).local_ty(0) == "bool"]
    if not ctx.floor("C06.CAP", "block predicate (bool helper guarding Full) of send_internal", len(pb), 1):
        return
    p = pb[0]
    defs = _result_defs(p)
    may_proceed = [s for s, v in defs if v != 1]         # definitions that can make the answer `false`
    ctx.floor("C06.CAP", "definitions of the predicate's result", len(defs), 2)
    # (b) waiting_senders.is_empty() seen true
    ie = _calls_on_field(prog, p, ST + "waiting_senders", re.compile(r"::is_empty$"))
    ok_b = False
    evaluated = bool(ie) and all(p.path_exists(None, lambda x, d=d: x == d, lambda x: x == ie[0][0]) is None for d in may_proceed)
    ctx.ob("C06.CAP", "queue-examined-before-proceeding", evaluated,
           "`%s` cannot answer `need not block` on a path that never looked at waiting_senders (whatever the caller's mode)" % p.nkey.split("::")[-1], loc=p.loc())
    if ie:
        br = kinds.bool_branch(p, ie[0][0])
        if br:
            tr, fl = br
            # the `empty` edge is the one that ends in tr; find its source switch block
            srcs = [x for x in p.pred[tr]]
            ok_b = len(srcs) == 1 and all(p.path_exists(None, lambda x, d=d: x == d, edge_ok=lambda a, nb: not (a == srcs[0] and nb == tr)) is None for d in may_proceed)
    ctx.ob("C06.CAP", "proceed-only-if-no-sender-queued", ok_b,
           "`%s` answers `need not block` only on paths where waiting_senders.is_empty() was evaluated and true — for blocking and non-blocking callers alike "
           "(a woken sender pushes without re-checking, so its slot must not be taken by a later sender)" % p.nkey.split("::")[-1], loc=p.loc())
    # (a) the capacity comparison
    fs = FlowSlicer(p, control=False)
    ok_a = False
    for bb in range(len(p.blocks)):
        t = p.term(bb)
        if t.get("k") != "switch":
            continue
        l = fs.operand_labels(t["discr"], p.term_site(bb))
        if ("field:" + ST + "messages") in l and ("field:" + M + "Channel.bound") in l and any(x.endswith("::len") for x in l):
            arms = dict((a[0], a[1]) for a in t["arms"])
            full_bb = arms.get(1, t["otherwise"]) if 1 in arms or 0 in arms else None
            notfull_bb = arms.get(0, t["otherwise"])
            if notfull_bb is not None and all(p.path_exists(None, lambda x, d=d: x == d, edge_ok=lambda a, nb: not (a == bb and nb == notfull_bb)) is None for d in may_proceed):
                ok_a = True
    ctx.ob("C06.CAP", "proceed-only-if-room", ok_a,
           "`%s` answers `need not block` only on the `not full` edge of a comparison of messages.len() with the bound" % p.nkey.split("::")[-1], loc=p.loc())
    # the answer is used for both modes: the call's arguments do not depend on how the caller was asked to behave
    for s, t in sb.calls():
        if p.nkey in sb.callees_of_call(t, passed=False):
            # pushing is reachable from the `false` answer without any further test of the queue: the answer is the only guard
            br = kinds.bool_branch(sb, s)
            ctx.ob("C06.CAP", "answer-decides", br is not None, "send_internal branches on the predicate's answer", loc=sb.loc(s))


RULES = [("C06.FIFO", fifo), ("C06.WAKE", recheck), ("C06.HAND", handoff), ("C06.SIB", siblings), ("C06.CAP", capacity), ("C06.CHAIN", sender_release_chain)]
