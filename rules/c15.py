"""C15 — vector clocks: happens-before edge table. For each synchronising operation the required clock effect
(increment of the source, merge into the target) must be performed on the success path (K3 / dataflow)."""
import re

from engine import kinds
from engine.facts import Site, Slicer, norm, operand_local, control_deps, last_field
from engine.slicing import FlowSlicer, expand_closure_labels

CRATES = {"shuttle_engine", "shuttle_std", "shuttle"}
CONFIGS_THOROUGH = ["vc", "plain"]
EXPLANATION = (
    "Static decision of a necessary condition per happens-before edge of C15: the operation that creates the edge performs the "
    "clock effect on its success path. spawn: the child's clock derives from the parent's incremented clock extended with the "
    "child's entry; join: the target's clock is merged before the result is taken; semaphore release/acquire: release stores the "
    "incremented clock with the permit batch, an immediate or queued grant merges the batch clock into the acquirer, a failed "
    "try_acquire merges last_acquire; channels: the message carries the sender's incremented clock, the receiver merges it, the "
    "bounded/rendezvous back-edges push/pop/merge the receiver clock; condvar: notifications carry current::clock() and the woken "
    "wait merges it before re-locking; barrier: arrivals merge into the barrier clock, the releaser merges it into every released "
    "task before unblocking it; once: the winner stores its incremented clock in Complete, later callers merge it; atomics: "
    "load/RMW exhale, store/successful RMW inhale. Plus monotonicity by construction: VectorClock::update writes only max(..) "
    "values or pushes, increment adds one.")
NOT_DECIDED = "absence of spurious orderings (clock precision), target-clock replay (value arithmetic of partial_cmp)"
ASSUMPTIONS = ["closures are run where they are passed", "checked in the vector-clocks configuration; the stub configuration keeps the calls (thorough tier)"]

E = "shuttle_engine::runtime::execution::"
ES = E + "ExecutionState::"
VC = "shuttle_engine::runtime::task::clock::vector_clock::VectorClock::"
UPD = ES + "update_clock"
INC = {ES + "increment_clock", ES + "increment_clock_mut"}
ICC = {ES + "with", ES + "try_with"}
CUR_CLOCK = "shuttle_engine::current::clock"


def family(prog, root):
    """root body and the closures nested in it."""
    out = []
    for b in prog.all_bodies(CRATES):
        if b.nkey == root or kinds.root_fn(prog, b.nkey) == root:
            out.append(b)
    return out


def calls_in(prog, root, target_pred):
    out = []
    for b in family(prog, root):
        for s, t in b.calls():
            if any(target_pred(c) for c in b.callees_of_call(t, passed=False)):
                out.append((b, s, t))
    return out


def arg_labels(prog, b, site, arg_i):
    fs = FlowSlicer(b)
    t = b.at(site)
    ops = t["args"] if t.get("k") == "call" else t["rv"].get("ops", [])
    return expand_closure_labels(prog, fs.operand_labels(ops[arg_i], site))


def req(ctx, key, ok, desc, loc=None, bad=None):
    ctx.ob("C15.E", key, ok, desc if ok else (bad or ("MISSING clock effect: " + desc)), loc=loc)


def edges(ctx):
    prog = ctx.prog
    is_inc = lambda c: c in INC
    is_vcupd = lambda c: c == VC + "update"
    M_UPD = prog.must_call({UPD}, invoke_closure_callees=ICC) | {UPD}
    M_VCU = prog.must_call({VC + "update"}, invoke_closure_callees=ICC) | {VC + "update"}
    # ---- spawn -> child start -------------------------------------------------------------------
    for f, ctor in (("spawn_thread", "from_closure"), ("spawn_future", "from_future")):
        root = ES + f
        ctx.body(root, "C15.E")
        cs = calls_in(prog, root, lambda c: c == "shuttle_engine::runtime::task::Task::" + ctor)
        ok = False
        loc = None
        for b, s, t in cs:
            labs = arg_labels(prog, b, s, 4)
            ok |= ("call:" + ES + "increment_clock_mut") in labs and ("call:" + VC + "extend") in labs or \
                (("call:" + ES + "increment_clock_mut") in labs and bool(calls_in(prog, root, lambda c: c == VC + "extend")))
            loc = b.loc(s)
        req(ctx, "spawn|" + f, ok, "`%s`: the child's clock is the parent's incremented clock extended with the child's entry" % f, loc)
    # ---- child end -> join ------------------------------------------------------------------------
    J = "shuttle_std::thread::JoinHandle::join"
    jb = ctx.body(J, "C15.E")
    takes = [s for s, t in jb.calls() if any(c.endswith("Option::take") for c in jb.callees_of_call(t, passed=False))]
    ok = bool(takes) and kinds.must_precede(prog, jb, takes[0], M_UPD, icc=ICC) is None
    req(ctx, "join", ok, "thread::JoinHandle::join merges the target's clock (update_clock) before taking the result", jb.loc())
    jl = calls_in(prog, J, lambda c: c == UPD)
    okc = any(("field:shuttle_engine::runtime::task::Task.clock") in arg_labels(prog, b, s, 1) for b, s, t in jl)
    req(ctx, "join-clock-source", okc, "the clock merged by join is the joined task's Task.clock", jb.loc())
    # ---- semaphore ----------------------------------------------------------------------------------
    B = "shuttle_engine::future::batch_semaphore::"
    rel = ctx.body(B + "BatchSemaphore::release", "C15.E")
    cs = calls_in(prog, rel.nkey, lambda c: c == B + "PermitsAvailable::release")
    ok = any(("call:" + ES + "increment_clock") in arg_labels(prog, b, s, 2) for b, s, t in cs)
    req(ctx, "sem-release", ok, "BatchSemaphore::release stores the releaser's incremented clock with the released permit batch", rel.loc())
    ap = ctx.body(B + "BatchSemaphoreState::acquire_permits", "C15.E")
    g = [s for s, t in ap.calls() if B + "PermitsAvailable::acquire" in ap.callees_of_call(t, passed=False)]
    oks = [s for s, st in ap.assigns() if st["dst"]["l"] == 0 and st["rv"]["k"] == "aggr" and st["rv"].get("variant") == "Ok"]
    ok = bool(g) and bool(oks) and all(ap.path_exists(g[0], lambda x, o=o: x == o, lambda x: prog.site_calls(ap, x, M_UPD, icc=ICC)) is None for o in oks)
    req(ctx, "sem-acquire-immediate", ok, "acquire_permits merges the clock of the acquired batches into the acquirer on its Ok path", ap.loc())
    uw = B + "BatchSemaphoreState::unblock_waiters_from_front"
    ctx.body(uw, "C15.E")
    ok = False
    for b in family(prog, uw):
        ub = [s for s, t in b.calls() if "shuttle_engine::runtime::task::Task::unblock" in b.callees_of_call(t, passed=False)]
        up = [s for s, t in b.calls() if VC + "update" in b.callees_of_call(t, passed=False)]
        if ub and up:
            ok = all(kinds.must_precede(prog, b, u, {VC + "update"}) is None for u in ub)
    req(ctx, "sem-acquire-queued", ok, "unblock_waiters_from_front merges the granted batch clock into the waiter's task clock before unblocking it", prog.get(uw).loc())
    pa = ctx.body(B + "PermitsAvailable::acquire", "C15.E")
    n_upd = len([1 for s, t in pa.calls() if VC + "update" in pa.callees_of_call(t, passed=False)])
    req(ctx, "sem-batch-join", n_upd >= 2, "PermitsAvailable::acquire joins the clocks of the batches it consumes and records last_acquire (%d merges)" % n_upd, pa.loc())
    ta = B + "BatchSemaphore::try_acquire"
    ctx.body(ta, "C15.E")
    cs = calls_in(prog, ta, lambda c: c == UPD)
    ok = any(("field:" + B + "PermitsAvailable.last_acquire") in arg_labels(prog, b, s, 1) for b, s, t in cs)
    req(ctx, "sem-try-acquire-failed", ok, "a failed try_acquire merges last_acquire into the caller's clock", prog.get(ta).loc())
    # ---- channels --------------------------------------------------------------------------------------
    M = "shuttle_std::sync::mpsc::"
    send = M + "Channel::send_internal"
    recv = M + "Channel::recv_internal"
    sb = ctx.body(send, "C15.E")
    rb = ctx.body(recv, "C15.E")
    cs = calls_in(prog, send, lambda c: c == M + "TimestampedValue::new")
    ok = any(("call:" + ES + "increment_clock") in arg_labels(prog, b, s, 1) for b, s, t in cs)
    req(ctx, "mpsc-send-stamps", ok, "send stamps the message with the sender's incremented clock", sb.loc())
    rm = [s for s, t in rb.calls() if any(c.endswith("SmallVec::remove") for c in rb.callees_of_call(t, passed=False))]
    msg_rm = [s for s in rm if ("field:" + M + "ChannelState.messages") in FlowSlicer(rb).operand_labels(rb.term(s.bb)["args"][0], s)]
    ok = bool(msg_rm) and rb.path_exists(msg_rm[-1], rb.is_return, lambda x: prog.site_calls(rb, x, M_VCU, icc=ICC)) is None
    req(ctx, "mpsc-recv-merges", ok, "after taking a message, recv merges the message clock into the receiver on every path", rb.loc())
    rcpush = calls_in(prog, recv, lambda c: c.endswith("SmallVec::push"))
    ok = any(("field:" + M + "ChannelState.receiver_clock") in expand_closure_labels(prog, FlowSlicer(b).operand_labels(t["args"][0], s)) for b, s, t in rcpush)
    req(ctx, "mpsc-bounded-recv-publishes", ok, "on a bounded channel recv pushes the receiver's clock for the sender it frees", rb.loc())
    # ... and what it publishes is the clock AFTER the message's clock was merged: the freed sender must learn what this receive learned
    # (X.send -> R.recv -> Y.send into the freed slot orders X before Y)
    pubs = [(b, s) for b, s, t in rcpush if ("field:" + M + "ChannelState.receiver_clock") in expand_closure_labels(prog, FlowSlicer(b).operand_labels(t["args"][0], s))]
    ok_order = bool(pubs)
    for b, s in pubs:
        if b is rb:
            # publish in recv_internal itself: a merge must lie on every path from the removal to it
            ok_order &= bool(msg_rm) and rb.path_exists(msg_rm[-1], lambda x, s=s: x == s, lambda x: prog.site_calls(rb, x, M_VCU, icc=ICC)) is None
        else:
            # publish inside a closure: either the merge precedes it inside the same closure, or the site of recv_internal that runs the
            # closure comes after a merge
            inside = b.path_exists(None, lambda x, s=s: x == s, lambda x: prog.site_calls(b, x, M_VCU, icc=ICC)) is None
            runs = [x for x, tt in rb.calls() if b.nkey in rb.passed_callables(tt)]
            outside = bool(runs) and bool(msg_rm) and all(rb.path_exists(msg_rm[-1], lambda y, x=x: y == x, lambda y: prog.site_calls(rb, y, M_VCU, icc=ICC) and y != x) is None
                                                          for x in runs)
            ok_order &= inside or outside
    req(ctx, "mpsc-bounded-recv-publishes-merged-clock", ok_order,
        "the clock recv publishes for the freed sender is taken after the message's clock has been merged into the receiver", rb.loc())
    srm = calls_in(prog, send, lambda c: c.endswith("SmallVec::remove"))
    ok = any(("field:" + M + "ChannelState.receiver_clock") in expand_closure_labels(prog, FlowSlicer(b).operand_labels(t["args"][0], s)) for b, s, t in srm) and \
        bool(calls_in(prog, send, lambda c: c == UPD))
    req(ctx, "mpsc-bounded-send-merges", ok, "a bounded send pops a receiver clock and merges it (recv -> freed send edge)", sb.loc())
    cs = calls_in(prog, send, lambda c: c == UPD)
    ok = any(("call:" + ES + "get_clock") in arg_labels(prog, b, s, 1) for b, s, t in cs)
    req(ctx, "mpsc-rendezvous", ok, "a rendezvous send merges the waiting receiver's clock", sb.loc())
    # ---- condvar ---------------------------------------------------------------------------------------
    C = "shuttle_std::sync::condvar::"
    for f in ("notify_one", "notify_all"):
        root = C + "Condvar::" + f
        nb = ctx.body(root, "C15.E")
        n_clock = len(calls_in(prog, root, lambda c: c == CUR_CLOCK))
        ub = calls_in(prog, root, lambda c: c == "shuttle_engine::runtime::task::Task::unblock")
        req(ctx, "condvar|" + f, n_clock >= 1 and bool(ub), "Condvar::%s attaches current::clock() to the notification it delivers" % f, nb.loc())
    wb = ctx.body(C + "Condvar::wait", "C15.E")
    rem = [s for s, t in wb.calls() if any("AssocExt" in c and c.endswith("::remove") for c in wb.callees_of_call(t, passed=False))]
    lk = [s for s, t in wb.calls() if "shuttle_std::sync::mutex::Mutex::lock" in wb.callees_of_call(t, passed=False)]
    ok = bool(rem) and bool(lk) and wb.path_exists(rem[0], lambda x: x == lk[0], lambda x: prog.site_calls(wb, x, M_UPD, icc=ICC)) is None
    req(ctx, "condvar|wait", ok, "a woken Condvar::wait merges the notifier's clock on every path before re-acquiring the mutex", wb.loc())
    # ---- barrier ----------------------------------------------------------------------------------------
    Bw = "shuttle_std::sync::barrier::Barrier::wait"
    bb_ = ctx.body(Bw, "C15.E")
    arr = [(b, s, t) for b, s, t in calls_in(prog, Bw, is_vcupd) if ("call:" + ES + "increment_clock") in arg_labels(prog, b, s, 1)]
    req(ctx, "barrier-arrival", bool(arr), "a barrier arrival merges the arriver's incremented clock into the barrier clock", bb_.loc())
    ok = False
    for b in family(prog, Bw):
        ub = [s for s, t in b.calls() if "shuttle_engine::runtime::task::Task::unblock" in b.callees_of_call(t, passed=False)]
        if ub:
            ok = all(kinds.must_precede(prog, b, u, {VC + "update"}) is None and kinds.must_precede(prog, b, u, {VC + "increment"}) is None for u in ub)
    req(ctx, "barrier-departure", ok, "the releasing arrival increments and merges the barrier clock into every released task before unblocking it", bb_.loc())
    # ---- once ---------------------------------------------------------------------------------------------
    O = "shuttle_std::sync::once::"
    ci = O + "Once::call_once_inner"
    ob = ctx.body(ci, "C15.E")
    comp = []
    for b in family(prog, ci):
        for s, st in b.assigns():
            if st["rv"]["k"] == "aggr" and st["rv"].get("variant") == "Complete":
                comp.append(("call:" + ES + "increment_clock") in expand_closure_labels(prog, FlowSlicer(b).operand_labels(st["rv"]["ops"][0], s)))
    req(ctx, "once-complete-stamps", any(comp), "the winner of call_once stores its incremented clock in OnceInitState::Complete", ob.loc())
    for root, name in ((ci, "call_once (already complete)"), (O + "Once::is_completed", "is_completed")):
        ctx.body(root, "C15.E")
        cs = calls_in(prog, root, lambda c: c == UPD)
        req(ctx, "once-later-callers|" + name, bool(cs), "%s merges the completion clock into the caller" % name, prog.get(root).loc())
    # ---- atomics ------------------------------------------------------------------------------------------
    A = "shuttle_std::sync::atomic::Atomic::"
    ms = lambda t: prog.must_call({t}, invoke_closure_callees=ICC) | {t}
    ex, inh = ms(A + "exhale_clock"), ms(A + "inhale_clock")
    for op, need in (("load", [("exhale", ex)]), ("store", [("inhale", inh)]), ("swap", [("exhale", ex), ("inhale", inh)]), ("fetch_update", [("exhale", ex)])):
        b = ctx.body(A + op, "C15.E")
        for nm, S in need:
            w = b.path_exists(None, b.is_return, lambda x: prog.site_calls(b, x, S))
            req(ctx, "atomic|%s|%s" % (op, nm), w is None, "Atomic::%s %ss the variable's clock on every path" % (op, nm), b.loc())
    fu = prog.get(A + "fetch_update")
    if fu is not None:
        wr = [s for s in fu.sites() if fu.at(s).get("k") == "assign" and "*" in fu.at(s)["dst"].get("p", []) and not fu.in_tracing(s)
              and fu.at(s)["rv"]["k"] == "use"]
        stores = [s for s in wr if fu.path_exists(s, fu.is_return, lambda x: prog.site_calls(fu, x, inh)) is None]
        req(ctx, "atomic|fetch_update|inhale-on-store", bool(wr) and len(stores) == len(wr), "a successful fetch_update (store of the new value) inhales the caller's clock", fu.loc())
    for nm, want in (("exhale_clock", UPD), ("inhale_clock", ES + "increment_clock")):
        b = ctx.body(A + nm, "C15.E")
        req(ctx, "atomic|" + nm, want in prog.may_reach([b.nkey]), "Atomic::%s reaches %s" % (nm, want.split("::")[-1]), b.loc())


def monotone(ctx):
    prog = ctx.prog
    up = prog.get(VC + "update")
    inc = prog.get(VC + "increment")
    if ctx.config == "plain":
        # without the `vector-clocks` feature VectorClock is a stub whose update/increment do nothing: the property is about the feature-on build
        ctx.ob("C15.M", "stub-config", True, "vector clocks are compiled out in this configuration (the calls remain and are checked by C15.E / C15.P)", nontrivial=False)
        return
    if up is None or inc is None:
        ctx.ob("C15.M", "anchor|VectorClock", False, "VectorClock::update/increment not found — rule not established", nontrivial=False)
        return
    # update: element writes come from Ord::max, growth from push
    ok = False
    sl = Slicer(up, alias_defs=False)
    writes = [(s, st) for s, st in up.assigns() if "*" in st["dst"].get("p", []) and st["rv"]["k"] == "use"]
    okw = bool(writes)
    for s, st in writes:
        labels, _ = sl.slice_operand(st["rv"]["ops"][0])
        okw &= any(l.endswith("cmp::Ord::max") or l.endswith("Ord>::max") for l in labels)
    pushes = [s for s, t in up.calls() if any(c.endswith("SmallVec::push") for c in up.callees_of_call(t, passed=False))]
    ctx.ob("C15.M", "update-is-max", okw and bool(pushes), "VectorClock::update only writes max(self[i], other[i]) into existing entries and pushes the missing ones", loc=up.loc())
    adds = [st for s, st in inc.assigns() if st["rv"]["k"] == "binop" and st["rv"].get("op") in ("Add", "AddWithOverflow") and any(kinds.operand_const(inc, o) == 1 for o in st["rv"]["ops"])]
    subs = [st for s, st in inc.assigns() if st["rv"]["k"] == "binop" and st["rv"].get("op", "").startswith("Sub")]
    ctx.ob("C15.M", "increment-adds-one", bool(adds) and not subs, "VectorClock::increment adds 1 to the own entry", loc=inc.loc())
    w = kinds.writers_of_field(prog, "shuttle_engine::runtime::task::Task.clock", None, kinds=("assign", "call_dst"))
    kinds.check_who_may(ctx, "C15.M", "direct assignment to Task.clock", set(w), set())


# The converse clause ("tasks connected by no chain of such edges are never reported as ordered"): a clock only absorbs another
# clock at one of the enumerated synchronisation edges.  One reason per line; a merge anywhere else orders tasks that did not synchronise.
MERGE_INTO_CURRENT = {   # callers of ExecutionState::update_clock (merge a clock into the running task's clock)
    "shuttle_engine::future::batch_semaphore::BatchSemaphore::try_acquire": "failed try_acquire observes the last acquire",
    "shuttle_engine::future::batch_semaphore::BatchSemaphoreState::acquire_permits": "acquire absorbs the clocks of the permit batches it takes",
    "shuttle_std::sync::atomic::Atomic::exhale_clock": "atomic read / RMW absorbs the variable's clock",
    "shuttle_std::sync::condvar::Condvar::wait": "woken wait absorbs the notifier's clock",
    "shuttle_std::sync::mpsc::Channel::send_internal": "bounded send absorbs the clock of the receive that freed its slot",
    "shuttle_std::sync::once::Once::call_once_inner": "later callers absorb the initializer's clock",
    "shuttle_std::sync::once::Once::is_completed": "observing completion absorbs the initializer's clock",
    "shuttle_std::thread::JoinHandle::join": "join absorbs the child's final clock",
}
MERGE_RAW = {            # direct callers of VectorClock::update (merge into a clock that is not necessarily the running task's)
    "shuttle_engine::future::batch_semaphore::BatchSemaphoreState::unblock_waiters_from_front": "grant to a queued waiter: the waiter absorbs the batch clocks",
    "shuttle_engine::future::batch_semaphore::PermitsAvailable::acquire": "collects the clocks of the batches being taken",
    "shuttle_engine::runtime::execution::ExecutionState::update_clock": "the merge primitive itself",
    "shuttle_std::sync::atomic::Atomic::inhale_clock": "atomic write publishes the writer's clock into the variable",
    "shuttle_std::sync::barrier::Barrier::wait": "arrivals merge into the barrier clock, released tasks absorb it",
    "shuttle_std::sync::mpsc::Channel::recv_internal": "receive absorbs the message's clock",
}
CLOCK_WRITERS = {        # functions that take Task.clock mutably
    "shuttle_engine::future::batch_semaphore::BatchSemaphoreState::unblock_waiters_from_front": "queued grant",
    "shuttle_engine::runtime::execution::ExecutionState::get_clock_mut": "accessor (its callers are checked below)",
    "shuttle_engine::runtime::execution::ExecutionState::update_clock": "merge primitive",
    "shuttle_engine::runtime::execution::ExecutionState::increment_clock": "own-step increment",
    "shuttle_engine::runtime::execution::ExecutionState::increment_clock_mut": "own-step increment",
    "shuttle_std::sync::barrier::Barrier::wait": "barrier release",
}
GET_MUT_CALLERS = {"shuttle_std::sync::mpsc::Channel::recv_internal": "receive merges the message clock into the receiver"}


def precision(ctx):
    prog = ctx.prog
    roots = lambda tgt: {kinds.root_fn(prog, k) for k in kinds.callers(prog, tgt)}
    kinds.check_who_may(ctx, "C15.P", "function merging a clock into the running task (update_clock)", roots(UPD), set(MERGE_INTO_CURRENT), required=set(MERGE_INTO_CURRENT))
    kinds.check_who_may(ctx, "C15.P", "function calling VectorClock::update", roots(VC + "update"), set(MERGE_RAW), required={UPD})
    w = kinds.writers_of_field(prog, "shuttle_engine::runtime::task::Task.clock", None, kinds=("assign", "refmut", "call_dst"))
    ctors = {k for k in w if k.startswith("shuttle_engine::runtime::task::Task::")}      # constructors initialise the field
    kinds.check_who_may(ctx, "C15.P", "function taking Task.clock mutably", set(w) - ctors, set(CLOCK_WRITERS))
    kinds.check_who_may(ctx, "C15.P", "caller of get_clock_mut", roots(ES + "get_clock_mut"), set(GET_MUT_CALLERS))
    # a task's clock is never replaced wholesale after construction (only grown through update / increment)
    repl = {k: v for k, v in w.items() if any(kind in ("assign", "call_dst") for _, _, kind in v) and k not in ctors}
    # an atomic variable's clock accumulates every writer (a later read is ordered after ALL earlier writes, not only after the one whose
    # value it observes): it is opened for mutation only to create it once and to merge a writer into it
    AC = "shuttle_std::sync::atomic::Atomic.clock"
    mut_re = re.compile(r"cell::RefCell<.*>::(borrow_mut|try_borrow_mut|replace|replace_with|take|swap|get_mut|into_inner|set)$|cell::RefCell::(borrow_mut|try_borrow_mut|replace|replace_with|take|swap|get_mut|into_inner|set)$")
    openers = {}
    from rules.c18 import _calls_on_field
    for b in prog.all_bodies({"shuttle_std"}):
        for s, t in _calls_on_field(prog, b, AC, mut_re):
            openers.setdefault(kinds.root_fn(prog, b.nkey), (b, s))
    A = "shuttle_std::sync::atomic::Atomic::"
    kinds.check_who_may(ctx, "C15.P", "function opening an atomic's clock for mutation", set(openers), {A + "init_clock", A + "inhale_clock"},
                        {k: v[0].loc(v[1]) for k, v in openers.items()}, required={A + "inhale_clock"})
    for k, (b, s) in sorted(openers.items()):
        # what is done through the mutable borrow: get_or_insert (creation) / as_mut + VectorClock::update (merge) only
        fam = [x for x in prog.all_bodies({"shuttle_std"}) if kinds.root_fn(prog, x.nkey) == k]
        used = {c for x in fam for _, t in x.calls() for c in x.callees_of_call(t, passed=False) if "option::Option" in c and "VectorClock" in str(t.get("args", "")) or
                c.startswith("core::option::Option") and c.split("::")[-1] in ("take", "replace", "insert", "get_or_insert", "get_or_insert_with", "as_mut", "unwrap", "expect")}
        bad = sorted(c for c in used if c.split("::")[-1] in ("take", "replace", "insert"))
        ctx.ob("C15.P", "atomic-clock-only-grows|" + k, not bad,
               "`%s` only creates the atomic's clock or merges into it" % k if not bad else "`%s` can discard the atomic's clock (%s): earlier writers are forgotten" % (k, bad[0]),
               loc=b.loc(s))
    ctx.ob("C15.P", "clock-never-replaced", not repl, "Task.clock is never assigned as a whole outside Task's constructors (each task's own clock only grows)" if not repl else
           "Task.clock is overwritten in %s: a task's clock could shrink" % sorted(repl), loc=None)


RULES = [("C15.E", edges), ("C15.M", monotone), ("C15.P", precision)]
